(* Proofs/C08Decimal.v — decimal rendering / parsing round-trip library for the formatter model.
   render_d = f"{n:d}", render_0wd w = f"{n:0<w>d}", py_int = int(text), value_of_digits = the positional value. *)
From Coq Require Import ZArith List Bool Lia ZifyBool.
From PV Require Import Lib.PyBase Model.FormatterBase Model.Formatter Model.FormatterParse.
Import ListNotations.
Open Scope Z_scope.
Ltac Zify.zify_post_hook ::= Z.to_euclidean_division_equations.

Definition all_digits (s : str) : Prop := Forall (fun c => 48 <= c <= 57) s.

Lemma value_of_digits_snoc s c : value_of_digits (s ++ [c]) = value_of_digits s * 10 + (c - 48).
Proof. unfold value_of_digits. rewrite fold_left_app. reflexivity. Qed.

Lemma digits_fuel_app f : forall n acc, digits_fuel f n acc = digits_fuel f n [] ++ acc.
Proof.
  induction f as [|f IH]; intros n acc; [reflexivity|].
  cbn [digits_fuel]. destruct (n <? 10); [reflexivity|].
  rewrite (IH (n / 10) ((48 + n mod 10) :: acc)), (IH (n / 10) [48 + n mod 10]).
  rewrite <- app_assoc. reflexivity.
Qed.

Lemma digits_fuel_value f : forall n, 0 <= n < 2 ^ Z.of_nat f -> value_of_digits (digits_fuel f n []) = n.
Proof.
  induction f as [|f IH]; intros n Hn.
  - cbn in Hn. assert (n = 0) by lia. subst. reflexivity.
  - cbn [digits_fuel]. destruct (n <? 10) eqn:E.
    + unfold value_of_digits. cbn [fold_left]. lia.
    + rewrite digits_fuel_app, value_of_digits_snoc, IH.
      * lia.
      * rewrite Nat2Z.inj_succ, Z.pow_succ_r in Hn by lia. lia.
Qed.

Lemma digits_fuel_digits f : forall n, 0 <= n -> all_digits (digits_fuel f n []).
Proof.
  induction f as [|f IH]; intros n Hn; [constructor|].
  cbn [digits_fuel]. destruct (n <? 10) eqn:E.
  - constructor; [lia|constructor].
  - rewrite digits_fuel_app. apply Forall_app. split; [apply IH; lia|].
    constructor; [lia|constructor].
Qed.

Lemma digits_fuel_nonempty f n : digits_fuel (S f) n [] <> [].
Proof.
  cbn [digits_fuel]. destruct (n <? 10); [discriminate|].
  rewrite digits_fuel_app. intro H. apply app_eq_nil in H. destruct H; discriminate.
Qed.

(* a number below 10^k has at most k digits *)
Lemma digits_fuel_length f : forall n k, 0 <= n < 10 ^ Z.of_nat k -> (1 <= k)%nat -> (length (digits_fuel f n []) <= k)%nat.
Proof.
  induction f as [|f IH]; intros n k Hn Hk; [cbn; lia|].
  cbn [digits_fuel]. destruct (n <? 10) eqn:E; [cbn; lia|].
  rewrite digits_fuel_app, app_length. cbn [length].
  destruct k as [|k]; [lia|]. destruct k as [|k].
  - cbn in Hn. lia.
  - assert (length (digits_fuel f (n / 10) []) <= S k)%nat; [|lia].
    apply IH; [|lia]. rewrite (Nat2Z.inj_succ (S k)), Z.pow_succ_r in Hn by lia. lia.
Qed.

Lemma digits_of_fuel_ok n : 0 <= n -> n < 2 ^ Z.of_nat (S (Z.to_nat (Z.log2 n))).
Proof.
  intros Hn. rewrite Nat2Z.inj_succ, Z2Nat.id by apply Z.log2_nonneg.
  destruct (Z.eq_dec n 0) as [->|Hne]; [reflexivity|].
  apply Z.log2_spec. lia.
Qed.

Lemma digits_of_value n : 0 <= n -> value_of_digits (digits_of n) = n.
Proof. intros Hn. apply digits_fuel_value. split; [lia|apply digits_of_fuel_ok; lia]. Qed.

Lemma digits_of_digits n : 0 <= n -> all_digits (digits_of n).
Proof. intros. apply digits_fuel_digits. lia. Qed.

Lemma digits_of_nonempty n : digits_of n <> [].
Proof. apply digits_fuel_nonempty. Qed.

Lemma digits_of_length n k : 0 <= n < 10 ^ Z.of_nat k -> (1 <= k)%nat -> (length (digits_of n) <= k)%nat.
Proof. intros. apply digits_fuel_length; assumption. Qed.

(* ---- zero padding *)
Lemma zeros_digits k : all_digits (zeros k).
Proof. induction k; constructor; [lia|assumption]. Qed.

Lemma zeros_length k : length (zeros k) = k.
Proof. induction k; cbn; congruence. Qed.

Lemma value_zeros_app k s : value_of_digits (zeros k ++ s) = value_of_digits s.
Proof.
  unfold value_of_digits. rewrite fold_left_app.
  assert (H : fold_left (fun a c => a * 10 + (c - 48)) (zeros k) 0 = 0).
  { induction k as [|k IH]; [reflexivity|]. cbn [zeros fold_left]. exact IH. }
  rewrite H. reflexivity.
Qed.

(* f"{n:0<w>d}" of a non-negative n: digits only, the value is n, and exactly w characters when n < 10^w *)
Lemma render_0wd_value w n : 0 <= n -> value_of_digits (render_0wd w n) = n.
Proof.
  intros Hn. unfold render_0wd. destruct (n <? 0) eqn:E; [lia|].
  unfold lpad. rewrite value_zeros_app. apply digits_of_value. exact Hn.
Qed.

Lemma render_0wd_digits w n : 0 <= n -> all_digits (render_0wd w n).
Proof.
  intros Hn. unfold render_0wd. destruct (n <? 0) eqn:E; [lia|].
  unfold lpad. apply Forall_app. split; [apply zeros_digits|apply digits_of_digits; exact Hn].
Qed.

Lemma render_0wd_length w n : 0 <= n < 10 ^ Z.of_nat w -> (1 <= w)%nat -> length (render_0wd (Z.of_nat w) n) = w.
Proof.
  intros Hn Hw. unfold render_0wd. destruct (n <? 0) eqn:E; [lia|].
  unfold lpad. rewrite app_length, zeros_length.
  pose proof (digits_of_length n w Hn Hw). lia.
Qed.

Lemma render_0wd_nonempty w n : 0 <= n -> render_0wd w n <> [].
Proof.
  intros Hn. unfold render_0wd. destruct (n <? 0) eqn:E; [lia|].
  unfold lpad. intro H. apply app_eq_nil in H. destruct H as [_ H]. exact (digits_of_nonempty n H).
Qed.

(* ---- int(text) inverts both renderings *)
Lemma all_digits_forallb s : all_digits s -> forallb is_digit s = true.
Proof.
  induction 1 as [|c s Hc _ IH]; [reflexivity|].
  cbn [forallb]. rewrite IH. unfold is_digit. lia.
Qed.

Lemma drop_blanks_digits s : all_digits s -> drop_blanks s = s.
Proof. destruct 1 as [|c s Hc _]; [reflexivity|]. cbn [drop_blanks]. destruct c as [|p|p]; try reflexivity.
  do 6 (destruct p as [p|p|]; try reflexivity). lia. Qed.

Lemma all_digits_rev s : all_digits s -> all_digits (rev s).
Proof. intros H. apply Forall_rev. exact H. Qed.

Lemma py_int_digits s : all_digits s -> s <> [] -> py_int s = Some (value_of_digits s).
Proof.
  intros Hd Hne. unfold py_int.
  rewrite (drop_blanks_digits s Hd), (drop_blanks_digits (rev s) (all_digits_rev s Hd)), rev_involutive.
  destruct s as [|c s]; [congruence|].
  assert (Hc : 48 <= c <= 57) by (inversion Hd; assumption).
  destruct (Z.eq_dec c 45) as [->|N1]; [lia|]. destruct (Z.eq_dec c 43) as [->|N2]; [lia|].
  assert (E : (match c :: s with 45 :: t => (true, t) | 43 :: t => (false, t) | _ => (false, c :: s) end) = (false, c :: s)).
  { destruct c as [|p|p]; try reflexivity. do 6 (destruct p as [p|p|]; try reflexivity); lia. }
  rewrite E. rewrite (all_digits_forallb _ Hd). reflexivity.
Qed.

Lemma py_int_render_0wd w n : 0 <= n -> py_int (render_0wd w n) = Some n.
Proof.
  intros Hn. rewrite py_int_digits; [rewrite render_0wd_value by exact Hn; reflexivity| |].
  - apply render_0wd_digits. exact Hn.
  - apply render_0wd_nonempty. exact Hn.
Qed.

Lemma drop_blanks_head c r : c <> 32 -> drop_blanks (c :: r) = c :: r.
Proof.
  intros H. cbn [drop_blanks]. destruct c as [|p|p]; try reflexivity.
  do 6 (destruct p as [p|p|]; try reflexivity). congruence.
Qed.

Lemma py_int_neg_digits s : all_digits s -> s <> [] -> py_int (45 :: s) = Some (- value_of_digits s).
Proof.
  intros Hd Hne. unfold py_int. rewrite (drop_blanks_head 45 s) by lia.
  cbn [rev].
  assert (Hr : drop_blanks (rev s ++ [45]) = rev s ++ [45]).
  { pose proof (all_digits_rev s Hd) as Hrd.
    destruct (rev s) as [|c r] eqn:Er.
    - cbn [app]. apply drop_blanks_head. lia.
    - cbn [app]. apply drop_blanks_head. inversion Hrd; subst. lia. }
  rewrite Hr, rev_app_distr, rev_involutive. cbn [rev app].
  destruct s as [|c s']; [congruence|].
  rewrite (all_digits_forallb _ Hd). reflexivity.
Qed.

Lemma py_int_render_d n : py_int (render_d n) = Some n.
Proof.
  unfold render_d. destruct (n <? 0) eqn:E.
  - rewrite py_int_neg_digits.
    + rewrite digits_of_value by lia. f_equal. lia.
    + apply digits_of_digits. lia.
    + apply digits_of_nonempty.
  - rewrite py_int_digits.
    + rewrite digits_of_value by lia. reflexivity.
    + apply digits_of_digits. lia.
    + apply digits_of_nonempty.
Qed.
