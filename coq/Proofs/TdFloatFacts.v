(* Proofs/TdFloatFacts.v — facts about Spec/TdFloat.v (shared: C09 C10 C05 C03 C13).
   Part 1: timedelta as an integer of microseconds (lia).
   Part 2: structural float facts proved directly on SpecFloat (sign handling, x - 0.0, abs, exact integer readers).
   The float round-trip lemma itself (td_roundtrip_exact of DESIGN 3.3) is NOT proved here; see Proofs/C09Facts.v for how it is carried. *)
From Coq Require Import ZArith List Bool Lia ZifyBool.
From Coq Require Import Floats.SpecFloat.
From PV Require Import Lib.PyBase Spec.TdFloat.
Import ListNotations.
Open Scope Z_scope.
Ltac Zify.zify_post_hook ::= Z.to_euclidean_division_equations.

(* ------------------------------------------------------------------ Part 1: integers *)
Lemma td_norm_ranges : forall N, let '(d, s, u) := td_norm N in 0 <= s < 86400 /\ 0 <= u < 1000000.
Proof. intro N. unfold td_norm, US_PER_DAY, US_PER_SEC. lia. Qed.

Lemma td_us_norm : forall N, let '(d, s, u) := td_norm N in td_us d s u = N.
Proof. intro N. unfold td_norm, td_us, US_PER_DAY, US_PER_SEC. lia. Qed.

Lemma td_norm_us : forall d s u, 0 <= s < 86400 -> 0 <= u < 1000000 -> td_norm (td_us d s u) = (d, s, u).
Proof.
  intros d s u Hs Hu. unfold td_norm, td_us, US_PER_DAY, US_PER_SEC.
  assert (E1 : ((d * 86400 + s) * 1000000 + u) / 86400000000 = d) by lia.
  assert (E2 : ((d * 86400 + s) * 1000000 + u) mod 86400000000 / 1000000 = s) by lia.
  assert (E3 : ((d * 86400 + s) * 1000000 + u) mod 1000000 = u) by lia.
  rewrite E1, E2, E3. reflexivity.
Qed.

Lemma td_norm_inj : forall N M, td_norm N = td_norm M -> N = M.
Proof.
  intros N M H. pose proof (td_us_norm N) as A. pose proof (td_us_norm M) as B.
  rewrite H in A. destruct (td_norm M) as [[d s] u]. congruence.
Qed.

Lemma td_of_int_args_spec : forall d s us ms mi h w N,
  td_of_int_args d s us ms mi h w = Ok N ->
  N = ((((w * 7 + d) * 24 + h) * 60 + mi) * 60 + s) * 1000000 + ms * 1000 + us
  /\ -999999999 <= N / 86400000000 <= 999999999.
Proof.
  intros d s us ms mi h w N. unfold td_of_int_args, td_in_range, td_us_of_int_args, US_PER_DAY, US_PER_SEC, TD_MAX_DAYS.
  destruct (_ && _) eqn:E; intro H; inversion H; subst; clear H. split; [ring | lia].
Qed.

Lemma td_of_int_args_ok : forall d s us ms mi h w,
  let N := ((((w * 7 + d) * 24 + h) * 60 + mi) * 60 + s) * 1000000 + ms * 1000 + us in
  -999999999 <= N / 86400000000 <= 999999999 -> td_of_int_args d s us ms mi h w = Ok N.
Proof.
  intros d s us ms mi h w N HN. unfold td_of_int_args.
  assert (E : td_us_of_int_args d s us ms mi h w = N) by (unfold td_us_of_int_args, US_PER_SEC, N; ring).
  rewrite E. unfold td_in_range, US_PER_DAY, TD_MAX_DAYS.
  destruct (_ && _) eqn:B; [reflexivity | lia].
Qed.

(* ------------------------------------------------------------------ Part 2: structural float facts *)
Lemma fsub_zero_r : forall x, fsub x (S754_zero false) = x.
Proof. intros [[|]| [|] | | s m e]; reflexivity. Qed.

Lemma bra_opp : forall s m e l,
  binary_round_aux fprec femax (negb s) m e l = SFopp (binary_round_aux fprec femax s m e l).
Proof.
  intros. unfold binary_round_aux.
  destruct (shr_fexp fprec femax m e l) as [mrs e'].
  destruct (shr_fexp fprec femax _ e' loc_Exact) as [mrs' e''].
  destruct (shr_m mrs'); try reflexivity.
  destruct (Zle_bool e'' (femax - fprec)); reflexivity.
Qed.

Lemma bra_abs : forall m e l,
  SFabs (binary_round_aux fprec femax false m e l) = binary_round_aux fprec femax false m e l.
Proof.
  intros. unfold binary_round_aux.
  destruct (shr_fexp fprec femax m e l) as [mrs e'].
  destruct (shr_fexp fprec femax _ e' loc_Exact) as [mrs' e''].
  destruct (shr_m mrs'); try reflexivity.
  destruct (Zle_bool e'' (femax - fprec)); reflexivity.
Qed.

Lemma total_seconds_opp : forall N, N <> 0 -> total_seconds (- N) = fopp (total_seconds N).
Proof.
  intros [|p|p] HN; [congruence| |].
  - unfold total_seconds, sf_of_ratio, fdiv, SFdiv; cbn [Z.opp].
    destruct (SFdiv_core_binary fprec femax (Z.pos p) 0 1000000 0) as [[mz ez] lz].
    exact (bra_opp false mz ez lz).
  - unfold total_seconds, sf_of_ratio, fdiv, SFdiv; cbn [Z.opp].
    destruct (SFdiv_core_binary fprec femax (Z.pos p) 0 1000000 0) as [[mz ez] lz].
    change (xorb true false) with (negb false). change (xorb false false) with false. rewrite bra_opp. unfold fopp.
    destruct (binary_round_aux fprec femax false mz ez lz) as [[|]|[|]| |[|] ? ?]; reflexivity.
Qed.

Lemma total_seconds_abs : forall N, fabs (total_seconds N) = total_seconds (Z.abs N).
Proof.
  intros [|p|p]; try reflexivity.
  - unfold total_seconds, sf_of_ratio, fdiv, SFdiv, fabs. cbn [Z.abs].
    destruct (SFdiv_core_binary fprec femax (Z.pos p) 0 1000000 0) as [[mz ez] lz]. apply bra_abs.
  - change (Z.neg p) with (- Z.pos p). rewrite total_seconds_opp by discriminate. cbn [Z.abs Z.opp].
    unfold total_seconds, sf_of_ratio, fdiv, SFdiv, fabs, fopp.
    destruct (SFdiv_core_binary fprec femax (Z.pos p) 0 1000000 0) as [[mz ez] lz].
    change (xorb false false) with false.
    rewrite <- (bra_abs mz ez lz) at 2.
    destruct (binary_round_aux fprec femax false mz ez lz); reflexivity.
Qed.

(* a non-negative float is never < 0 *)
Lemma flt_abs_zero : forall x, flt (fabs x) (S754_zero false) = false.
Proof. intros [s|s| |s m e]; reflexivity. Qed.

Lemma py_int_trunc_opp : forall x z, py_int_trunc x = Ok z -> py_int_trunc (fopp x) = Ok (- z).
Proof.
  intros [s|s| |s m e] z H; inversion H; subst; try reflexivity.
  cbn. f_equal. destruct s; cbn; lia.
Qed.

Lemma py_round_opp : forall x z, py_round_half_even x = Ok z -> py_round_half_even (fopp x) = Ok (- z).
Proof.
  intros [s|s| |s m e] z H; inversion H; subst; try reflexivity.
  cbn. f_equal. destruct s; cbn; lia.
Qed.

(* int() and round() agree on integer-valued floats *)
Lemma round_eq_trunc_of_integral : forall s m e, 0 <= e ->
  py_round_half_even (S754_finite s m e) = py_int_trunc (S754_finite s m e).
Proof.
  intros s m e He. cbn. unfold sf_round_mag, sf_trunc_mag.
  destruct (0 <=? e) eqn:E; [reflexivity | lia].
Qed.

(* round() is within one half of the value: stated on the scaled integers  (2^-e * |round| vs m) *)
Lemma sf_round_mag_near : forall m e, e < 0 ->
  let d := 2 ^ (- e) in 2 * Z.abs (sf_round_mag m e * d - Zpos m) <= d.
Proof.
  intros m e He d. unfold sf_round_mag.
  destruct (0 <=? e) eqn:E; [lia|]. fold d.
  assert (Hd : 0 < d) by (apply Z.pow_pos_nonneg; lia).
  pose proof (Z.div_mod (Zpos m) d ltac:(lia)) as DM.
  pose proof (Z.mod_pos_bound (Zpos m) d Hd) as MB.
  destruct (2 * (Z.pos m mod d) <? d) eqn:A; [nia|].
  destruct (d <? 2 * (Z.pos m mod d)) eqn:B; [nia|].
  destruct (Z.even (Z.pos m / d)); nia.
Qed.

(* int() truncates: 0 <= m - trunc * 2^-e < 2^-e *)
Lemma sf_trunc_mag_spec : forall m e, e < 0 ->
  let d := 2 ^ (- e) in 0 <= Zpos m - sf_trunc_mag m e * d < d.
Proof.
  intros m e He d. unfold sf_trunc_mag. destruct (0 <=? e) eqn:E; [lia|]. fold d.
  assert (Hd : 0 < d) by (apply Z.pow_pos_nonneg; lia).
  pose proof (Z.div_mod (Zpos m) d ltac:(lia)). pose proof (Z.mod_pos_bound (Zpos m) d Hd). nia.
Qed.
