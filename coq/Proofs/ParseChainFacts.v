(* Proofs/ParseChainFacts.v — C17: the hand model Model/ParseTotal.v of the chain behind pendulum.parse IS the code: Gen/ParseChain.v (translated from
   src/pendulum/parsing/__init__.py and src/pendulum/parser.py by tools/vlib/gens/g84_parse_chain.py on every run, with contextlib.suppress and
   try / except translated as matches on the exception kind of the result monad) is proved EQUAL to base_parse, normalize, interval_parse, ...
   parse_iso8601 (iso8601 rs: either backend) and dateutil (du) are the model's parameters on both sides. *)
From Coq Require Import ZArith List Bool Lia.
From PV Require Import Lib.PyBase Spec.Cal Model.C07Regex Gen.IsoRegex Proofs.C17Regex Model.ParseTotal Model.ParseChainObj Gen.ParseChain.
From PV Require Model.IsoParse Model.DurParse.
Import ListNotations.
Open Scope Z_scope.

Lemma rid {A} (r : result A) : match r with Raise e => Raise e | Ok m => Ok m end = r.
Proof. destruct r; reflexivity. Qed.

(* the exception classes: what `except ValueError`, `except ParserError`, `except (ValueError, OverflowError)` catch *)
Lemma isa_value e : exn_isa PC_SUBCLASS E_ValueError e = is_ve e.
Proof. destruct e; reflexivity. Qed.
Lemma isa_parser e : exn_isa PC_SUBCLASS E_ParserError e = match e with E_ParserError => true | _ => false end.
Proof. destruct e; reflexivity. Qed.
Lemma isa_overflow e : exn_isa PC_SUBCLASS E_OverflowError e = match e with E_OverflowError => true | _ => false end.
Proof. destruct e; reflexivity. Qed.

(* ------------------------------------------------------------------ parsing/__init__.py :: _parse — the ladder *)
Section Ladder.
  Variable du : list Z -> bool -> bool -> result IsoParse.pval.
  Variable iso : list Z -> result ival.
  (* the two rungs that are still hand-modelled / separately translated, as functions *)
  Variable interval : pstr -> result parsed.
  Variable common : pstr -> opts -> result parsed.

  (* the model's ladder over arbitrary rungs (base_parse is this with iso8601 rs, interval_parse, common_parse_df) *)
  Definition ladder (o : opts) (s : list Z) : result parsed :=
    match pc_iso8601 iso s with
    | Ok r => Ok r
    | Raise e1 =>
      if negb (is_ve e1) then Raise e1 else
      match interval s with
      | Ok r => Ok r
      | Raise e2 =>
        if negb (is_ve e2) then Raise e2 else
        match common s o with
        | Ok r => Ok r
        | Raise E_ParserError =>
            if o_strict o then Raise E_ParserError
            else match du s (o_day_first o) (o_year_first o) with
                 | Ok p => if match IsoParse.p_off p with Some z => (z <=? -86400) || (86400 <=? z) | None => false end
                           then Raise E_ParserError else Ok (R_i (I_p p))
                 | Raise E_ValueError | Raise E_ParserError | Raise E_OverflowError => Raise E_ParserError
                 | Raise e => Raise e
                 end
        | Raise e3 => Raise e3
        end
      end
    end.
End Ladder.

(* ------------------------------------------------------------------ parsing/__init__.py :: _parse_iso8601_interval *)
(* a value of the native classes has fields inside their ranges; options["now"] is a datetime *)
Definition wf_parsed (r : parsed) : Prop :=
  match r with
  | R_i (I_p p) => (IsoParse.p_kind p = 3 -> IsoParse.valid_time (IsoParse.p_H p) (IsoParse.p_M p) (IsoParse.p_S p) (IsoParse.p_us p) = true) /\
                   (IsoParse.p_kind p = 2 -> IsoParse.valid_date (IsoParse.p_y p) (IsoParse.p_m p) (IsoParse.p_d p) = true)
  | _ => True
  end.
Definition wf_now (o : opts) : Prop := let '(y, m, d) := o_now o in IsoParse.valid_date y m d = true.
(* parse_iso8601 returns objects of the native classes *)
Definition iso_wf (iso : list Z -> result ival) : Prop := forall s i, iso s = Ok i -> wf_parsed (R_i i).

Lemma split_has_slash s : DurParse.has_slash s = match DurParse.split_slash s with (_, Some _) => true | (_, None) => false end.
Proof.
  induction s as [|c r IH]; [reflexivity|]. cbn [DurParse.split_slash DurParse.has_slash existsb].
  destruct (c =? DurParse.c_slash); [reflexivity|]. cbn [orb]. fold (DurParse.has_slash r). rewrite IH.
  destruct (DurParse.split_slash r) as [a [b|]]; reflexivity.
Qed.

Lemma is_date_endpoint i : pc_is_date (R_i i) = endpoint_ok i.
Proof. destruct i; reflexivity. Qed.

Lemma midnight_eq i (F : parsed -> parsed) : endpoint_ok i = true -> wf_parsed (R_i i) ->
  (if negb (pc_is_datetime (R_i i))
   then match pc_datetime (pc_year (R_i i)) (pc_month (R_i i)) (pc_day (R_i i)) 0 0 0 0 with Raise e => Raise e | Ok m => Ok (F m) end
   else Ok (F (R_i i))) = Ok (F (R_i (at_midnight i))).
Proof.
  intros K W. destruct i as [p| |]; try discriminate K. cbn [endpoint_ok] in K. unfold pc_is_datetime, pc_kind, at_midnight.
  destruct (IsoParse.p_kind p =? 1) eqn:K1; cbn [negb].
  - assert (K2 : (IsoParse.p_kind p =? 2) = false) by (apply Z.eqb_eq in K1; rewrite K1; reflexivity). rewrite K2. reflexivity.
  - cbn [orb] in K. rewrite K. apply Z.eqb_eq in K. destruct W as [_ W2]. specialize (W2 K).
    unfold pc_datetime, pc_year, pc_month, pc_day, pc_p, IsoParse.mk_datetime. rewrite W2. reflexivity.
Qed.

Theorem pchain_parse_iso8601_interval_eq iso s : iso_wf iso ->
  pchain_parse_iso8601_interval iso s = pin_parse_iso8601_interval iso s.
Proof.
  intros Wi. unfold pchain_parse_iso8601_interval, pin_parse_iso8601_interval, interval_parse, pc_contains_slash, pc_split_slash.
  rewrite split_has_slash. destruct (DurParse.split_slash s) as [first [last|]]; [|reflexivity]. cbn [negb].
  destruct (DurParse.has_slash last); [reflexivity|]. cbv beta iota zeta.
  unfold pc_iso8601. destruct (head_is_P first).
  - destruct (iso first) as [d|e]; cbn [bind]; [|reflexivity]. destruct (iso last) as [b|e] eqn:Eb; cbn [bind]; [|reflexivity].
    rewrite is_date_endpoint. destruct (endpoint_ok b) eqn:K; cbn [negb]; [|reflexivity].
    rewrite (midnight_eq b (fun m => pc_Interval None (Some m) (Some (R_i d))) K (Wi _ _ Eb)). reflexivity.
  - destruct (head_is_P last).
    + destruct (iso first) as [a|e] eqn:Ea; cbn [bind]; [|reflexivity]. destruct (iso last) as [d|e]; cbn [bind]; [|reflexivity].
      rewrite is_date_endpoint. destruct (endpoint_ok a) eqn:K; cbn [negb]; [|reflexivity].
      rewrite (midnight_eq a (fun m => pc_Interval (Some m) None (Some (R_i d))) K (Wi _ _ Ea)). reflexivity.
    + destruct (iso first) as [a|e]; cbn [bind]; [|reflexivity]. destruct (iso last) as [b|e]; cbn [bind]; [|reflexivity].
      rewrite !is_date_endpoint. destruct (endpoint_ok a); cbn [negb andb]; [|reflexivity]. destruct (endpoint_ok b); reflexivity.
Qed.

(* ------------------------------------------------------------------ parsing/__init__.py :: _parse_common *)
(* capture-group dependencies of COMMON (Proofs/C17Regex.v re_match_dep, one kernel computation each on the GENERATED AST): a group that int() reads
   took part whenever the group whose truth guards the read did *)
Lemma common_dep T M s c : dep_ok T M COMMON_RE = true -> (M <= COMMON_NGROUPS)%nat ->
  re_match COMMON_RE COMMON_NGROUPS s = Some c -> grp c T <> None -> grp c M <> None.
Proof. intros D L H. exact (re_match_dep T M COMMON_RE COMMON_NGROUPS s c D L H). Qed.

Theorem pchain_parse_common_eq s o : pchain_parse_common s o = pin_parse_common s o.
Proof.
  unfold pchain_parse_common, pin_parse_common, common_parse_df, pc_common_match, pc_lift. cbv zeta.
  destruct (re_match COMMON_RE COMMON_NGROUPS (fold_str s)) as [c|] eqn:E; [|reflexivity].
  pose proof (common_dep G_COMMON_date G_COMMON_year _ c ltac:(vm_compute; reflexivity) ltac:(vm_compute; lia) E) as Dy.
  pose proof (common_dep G_COMMON_monthday G_COMMON_month _ c ltac:(vm_compute; reflexivity) ltac:(vm_compute; lia) E) as Dm.
  pose proof (common_dep G_COMMON_monthday G_COMMON_day _ c ltac:(vm_compute; reflexivity) ltac:(vm_compute; lia) E) as Dd.
  pose proof (common_dep G_COMMON_time G_COMMON_hour _ c ltac:(vm_compute; reflexivity) ltac:(vm_compute; lia) E) as Dh.
  pose proof (common_dep G_COMMON_time G_COMMON_minute _ c ltac:(vm_compute; reflexivity) ltac:(vm_compute; lia) E) as Dmi.
  pose proof (common_dep G_COMMON_subsecondsection G_COMMON_subsecond _ c ltac:(vm_compute; reflexivity) ltac:(vm_compute; lia) E) as Dss.
  clear E. unfold pc_group_truth, pc_group_int, pc_group_us6, IsoParse.has, IsoParse.gtext.
  destruct (grp c G_COMMON_date) as [ld|].
  - specialize (Dy ltac:(discriminate)). destruct (grp c G_COMMON_year) as [ly|]; [clear Dy|contradiction]. cbn [andb negb].
    destruct (grp c G_COMMON_monthday) as [lmd|].
    + specialize (Dm ltac:(discriminate)). specialize (Dd ltac:(discriminate)).
      destruct (grp c G_COMMON_month) as [lm|]; [clear Dm|contradiction]. destruct (grp c G_COMMON_day) as [ldd|]; [clear Dd|contradiction]. cbn [negb].
      destruct (grp c G_COMMON_time) as [lt|].
      * specialize (Dh ltac:(discriminate)). specialize (Dmi ltac:(discriminate)).
        destruct (grp c G_COMMON_hour) as [lh|]; [clear Dh|contradiction]. destruct (grp c G_COMMON_minute) as [lmi|]; [clear Dmi|contradiction]. cbn [negb].
        destruct (grp c G_COMMON_subsecondsection) as [lss|].
        -- specialize (Dss ltac:(discriminate)). destruct (grp c G_COMMON_subsecond) as [lsu|]; [clear Dss|contradiction].
           destruct (o_day_first o); destruct (grp c G_COMMON_second); cbv beta iota zeta; rewrite ?rid; reflexivity.
        -- destruct (o_day_first o); destruct (grp c G_COMMON_second); cbv beta iota zeta; rewrite ?rid; reflexivity.
      * cbn [negb]. destruct (o_day_first o); cbv beta iota zeta; rewrite ?rid; reflexivity.
    + clear Dm Dd. cbn [negb]. destruct (grp c G_COMMON_time) as [lt|].
      * specialize (Dh ltac:(discriminate)). specialize (Dmi ltac:(discriminate)).
        destruct (grp c G_COMMON_hour) as [lh|]; [clear Dh|contradiction]. destruct (grp c G_COMMON_minute) as [lmi|]; [clear Dmi|contradiction]. cbn [negb].
        destruct (grp c G_COMMON_subsecondsection) as [lss|].
        -- specialize (Dss ltac:(discriminate)). destruct (grp c G_COMMON_subsecond) as [lsu|]; [clear Dss|contradiction].
           destruct (o_day_first o); destruct (grp c G_COMMON_second); cbv beta iota zeta; rewrite ?rid; reflexivity.
        -- destruct (o_day_first o); destruct (grp c G_COMMON_second); cbv beta iota zeta; rewrite ?rid; reflexivity.
      * cbn [negb]. destruct (o_day_first o); cbv beta iota zeta; rewrite ?rid; reflexivity.
  - clear Dy Dm Dd. cbn [andb negb]. destruct (grp c G_COMMON_time) as [lt|].
    + specialize (Dh ltac:(discriminate)). specialize (Dmi ltac:(discriminate)).
      destruct (grp c G_COMMON_hour) as [lh|]; [clear Dh|contradiction]. destruct (grp c G_COMMON_minute) as [lmi|]; [clear Dmi|contradiction]. cbn [negb].
      destruct (grp c G_COMMON_subsecondsection) as [lss|].
      * specialize (Dss ltac:(discriminate)). destruct (grp c G_COMMON_subsecond) as [lsu|]; [clear Dss|contradiction].
        destruct (grp c G_COMMON_second); cbv beta iota zeta; rewrite ?rid; reflexivity.
      * destruct (grp c G_COMMON_second); cbv beta iota zeta; rewrite ?rid; reflexivity.
    + cbn [negb]. cbv beta iota zeta. rewrite ?rid. reflexivity.
Qed.

Lemma base_parse_ladder du rs o s :
  base_parse du rs o s = ladder du (iso8601 rs) (pin_parse_iso8601_interval (iso8601 rs)) pin_parse_common o s.
Proof.
  unfold base_parse, ladder, pc_iso8601, pin_parse_iso8601_interval, pin_parse_common, pc_lift.
  destruct (iso8601 rs s) as [i|e1]; [reflexivity|]. destruct (negb (is_ve e1)); [reflexivity|].
  destruct (interval_parse (iso8601 rs) s) as [f|e2]; [reflexivity|]. destruct (negb (is_ve e2)); [reflexivity|].
  destruct (common_parse_df (o_day_first o) s) as [p|e3]; reflexivity.
Qed.

Theorem pchain_parse_ladder_eq du rs o s : iso_wf (iso8601 rs) -> pchain_parse_ladder (iso8601 rs) du s o = base_parse du rs o s.
Proof.
  intros Wi. rewrite base_parse_ladder. unfold pchain_parse_ladder, ladder. rewrite !rid. rewrite (pchain_parse_iso8601_interval_eq _ s Wi), pchain_parse_common_eq.
  destruct (pc_iso8601 (iso8601 rs) s) as [r|e1]; [reflexivity|]. rewrite isa_value. destruct (is_ve e1); cbn [negb]; [|reflexivity].
  destruct (pin_parse_iso8601_interval (iso8601 rs) s) as [r|e2]; [reflexivity|]. rewrite isa_value. destruct (is_ve e2); cbn [negb]; [|reflexivity].
  destruct (pin_parse_common s o) as [r|e3]; [reflexivity|]. rewrite isa_parser.
  destruct e3; try reflexivity. destruct (o_strict o); [reflexivity|].
  unfold pc_dateutil. destruct (du s (o_day_first o) (o_year_first o)) as [p|e4].
  - unfold pc_utcoffset. destruct (IsoParse.p_off p) as [z|]; [|reflexivity]. destruct ((z <=? -86400) || (86400 <=? z)); reflexivity.
  - rewrite isa_value, isa_overflow. destruct e4; reflexivity.
Qed.

(* ------------------------------------------------------------------ parsing/__init__.py :: _normalize *)
Theorem pchain_normalize_eq r o : wf_parsed r -> wf_now o -> pchain_normalize r o = Ok (normalize o r).
Proof.
  intros Wr Wn. unfold pchain_normalize, normalize. destruct (o_exact o); [reflexivity|].
  destruct r as [[p| |]|f]; try reflexivity.
  unfold pc_is_time, pc_is_date, pc_is_datetime, pc_kind. cbn [wf_parsed] in Wr. destruct Wr as [W3 W2].
  destruct (IsoParse.p_kind p =? 3) eqn:K3.
  - apply Z.eqb_eq in K3. specialize (W3 K3). unfold wf_now in Wn. unfold pc_now. destruct (o_now o) as [[ny nm] nd]. cbv zeta.
    unfold pc_datetime, pc_year, pc_month, pc_day, pc_hour, pc_minute, pc_second, pc_microsecond, pc_p, IsoParse.mk_datetime. cbn [IsoParse.p_y IsoParse.p_m IsoParse.p_d].
    rewrite Wn, W3. reflexivity.
  - destruct (IsoParse.p_kind p =? 2) eqn:K2.
    + apply Z.eqb_eq in K2. specialize (W2 K2). rewrite K2. cbn [Z.eqb Pos.eqb orb andb negb].
      unfold pc_datetime, pc_year, pc_month, pc_day, pc_p, IsoParse.mk_datetime. rewrite W2. reflexivity.
    + destruct (IsoParse.p_kind p =? 1); reflexivity.
Qed.

(* ------------------------------------------------------------------ parsing/__init__.py :: parse *)
Theorem pchain_parse_eq du rs o s : iso_wf (iso8601 rs) ->
  pchain_parse (iso8601 rs) du s o = bind (base_parse du rs o s) (fun r => pchain_normalize r o).
Proof. intros Wi. unfold pchain_parse. rewrite (pchain_parse_ladder_eq du rs o s Wi). destruct (base_parse du rs o s); cbn [bind]; [apply rid|reflexivity]. Qed.

Corollary pchain_parse_model du rs o s : iso_wf (iso8601 rs) -> wf_now o -> (forall r, base_parse du rs o s = Ok r -> wf_parsed r) ->
  pchain_parse (iso8601 rs) du s o = bind (base_parse du rs o s) (fun r => Ok (normalize o r)).
Proof.
  intros Wi Wn Wr. rewrite (pchain_parse_eq du rs o s Wi). destruct (base_parse du rs o s) as [r|e] eqn:E; [|reflexivity]. cbn [bind].
  apply pchain_normalize_eq; [apply Wr; reflexivity|exact Wn].
Qed.

(* ------------------------------------------------------------------ parser.py :: _parse — the assembly *)
Definition kind_ok (r : parsed) : Prop :=
  match r with R_i (I_p p) => IsoParse.p_kind p = 1 \/ IsoParse.p_kind p = 2 \/ IsoParse.p_kind p = 3 | _ => True end.

Lemma try_overflow {A} (r : result A) :
  match r with Ok v => Ok v | Raise e => if exn_isa PC_SUBCLASS E_OverflowError e then Raise E_ParserError else Raise e end
  = match r with Raise E_OverflowError => Raise E_ParserError | r0 => r0 end.
Proof. destruct r as [v|e]; [reflexivity|]. destruct e; reflexivity. Qed.

Lemma parts_of_raise d e : parts_of d = Raise e -> e = E_AttributeError.
Proof.
  destruct d as [p|r|x ob]; cbn [parts_of].
  - intros H; injection H as <-; reflexivity.
  - discriminate.
  - unfold DurParse.py_parts. destruct ob as [[[[y mo] a] b] c]. discriminate.
Qed.

Lemma same_src_refl rs src : same_src rs src src = true.
Proof. destruct src as [|i x]; [reflexivity|]. cbn [same_src]. rewrite Z.eqb_refl. reflexivity. Qed.

Ltac preds := cbv [pc_is_datetime pc_is_date pc_is_time pc_kind pc_is_interval pc_is_pydur pc_is_rsdur pc_has_duration pc_has_start
                   pc_iv_start pc_iv_end pc_iv_duration]; cbn [Z.eqb Pos.eqb orb andb negb].

Lemma assemble_code_start_dur rs o a d :
  match pc_instance (a, 0) (deftz o) with
  | Raise e => Raise e
  | Ok dt =>
    match pc_dur_field 0 d with Raise e => Raise e | Ok y =>
    match pc_dur_field 1 d with Raise e => Raise e | Ok mo =>
    match pc_dur_field 2 d with Raise e => Raise e | Ok w =>
    match pc_dur_field 3 d with Raise e => Raise e | Ok dd =>
    match pc_dur_field 4 d with Raise e => Raise e | Ok h =>
    match pc_dur_field 5 d with Raise e => Raise e | Ok mi =>
    match pc_dur_field 6 d with Raise e => Raise e | Ok se =>
    match pc_dur_field 7 d with Raise e => Raise e | Ok us =>
    match pc_dt_add dt y mo w dd h mi se us with Raise e => Raise e | Ok dt' =>
    match pc_interval rs dt dt' with Raise e => Raise e | Ok v => Ok v end end end end end end end end end end
  end = assemble rs o (F_start_dur a d).
Proof.
  cbn [assemble]. unfold pc_dur_field.
  destruct a as [p|r|x ob].
  - unfold pc_instance. cbn [fst snd]. destruct (parts_of d) as [[[[[[[[y mo] w] dd] h] mi] se] us]|e] eqn:Ep; cbn [bind nth].
    + destruct (IsoParse.p_kind p =? 1).
      * unfold pc_dt_add, off_of, pc_tz_or. destruct (dt_add _ (wall_p p) _) as [W'|e]; cbn [bind]; [|reflexivity].
        unfold pc_interval. rewrite same_src_refl. rewrite rid. reflexivity.
      * destruct (IsoParse.p_kind p =? 2); reflexivity.
    + destruct (IsoParse.p_kind p =? 1); [reflexivity|]. destruct (IsoParse.p_kind p =? 2); reflexivity.
  - unfold pc_instance. cbn [fst]. destruct (parts_of d) as [pp|e] eqn:Ep; cbn [bind]; [reflexivity|]. rewrite (parts_of_raise _ _ Ep). reflexivity.
  - unfold pc_instance. cbn [fst]. destruct (parts_of d) as [pp|e] eqn:Ep; cbn [bind]; [reflexivity|]. rewrite (parts_of_raise _ _ Ep). reflexivity.
Qed.

Lemma assemble_code_dur_end rs o d b :
  match pc_instance (b, 1) (deftz o) with
  | Raise e => Raise e
  | Ok dt =>
    match pc_dur_field 0 d with Raise e => Raise e | Ok y =>
    match pc_dur_field 1 d with Raise e => Raise e | Ok mo =>
    match pc_dur_field 2 d with Raise e => Raise e | Ok w =>
    match pc_dur_field 3 d with Raise e => Raise e | Ok dd =>
    match pc_dur_field 4 d with Raise e => Raise e | Ok h =>
    match pc_dur_field 5 d with Raise e => Raise e | Ok mi =>
    match pc_dur_field 6 d with Raise e => Raise e | Ok se =>
    match pc_dur_field 7 d with Raise e => Raise e | Ok us =>
    match pc_dt_subtract dt y mo w dd h mi se us with Raise e => Raise e | Ok dt' =>
    match pc_interval rs dt' dt with Raise e => Raise e | Ok v => Ok v end end end end end end end end end end
  end = assemble rs o (F_dur_end d b).
Proof.
  cbn [assemble]. unfold pc_dur_field.
  destruct b as [p|r|x ob]; try reflexivity.
  unfold pc_instance. cbn [fst snd]. destruct (parts_of d) as [[[[[[[[y mo] w] dd] h] mi] se] us]|e] eqn:Ep; cbn [bind nth].
  - destruct (IsoParse.p_kind p =? 1).
    + unfold pc_dt_subtract, pc_dt_add, off_of, pc_tz_or, neg_parts. destruct (dt_add _ (wall_p p) _) as [W'|e]; cbn [bind]; [|reflexivity].
      unfold pc_interval. rewrite same_src_refl. rewrite rid. reflexivity.
    + destruct (IsoParse.p_kind p =? 2); reflexivity.
  - destruct (IsoParse.p_kind p =? 1); [reflexivity|]. destruct (IsoParse.p_kind p =? 2); reflexivity.
Qed.

Lemma assemble_code_start_end rs o a b :
  match pc_instance (a, 0) (deftz o) with
  | Raise e => Raise e
  | Ok x => match pc_instance (b, 1) (deftz o) with
            | Raise e => Raise e
            | Ok y => match pc_interval rs x y with Raise e => Raise e | Ok v => Ok v end
            end
  end = assemble rs o (F_start_end a b).
Proof.
  cbn [assemble]. unfold pc_instance. cbn [fst snd].
  destruct a as [p|r|x ob]; try reflexivity.
  destruct b as [q|r|x ob]; try (destruct (IsoParse.p_kind p =? 1); [reflexivity|destruct (IsoParse.p_kind p =? 2); reflexivity]).
  destruct (IsoParse.p_kind p =? 1) eqn:Kp, (IsoParse.p_kind q =? 1) eqn:Kq; cbn [andb orb].
  - unfold pc_interval, off_of, pc_tz_or. rewrite rid.
    destruct (IsoParse.p_off p) as [x|], (IsoParse.p_off q) as [y|]; cbn [same_src Z.eqb orb]; reflexivity.
  - destruct (IsoParse.p_kind q =? 2); reflexivity.
  - destruct (IsoParse.p_kind p =? 2); reflexivity.
  - destruct (IsoParse.p_kind p =? 2), (IsoParse.p_kind q =? 2); reflexivity.
Qed.

Lemma normalize_kind_ok o r : kind_ok r -> kind_ok (normalize o r).
Proof.
  unfold normalize. destruct (o_exact o); [auto|]. destruct r as [[p|rd|x ob]|f]; auto. cbn [kind_ok]. intros K.
  destruct (IsoParse.p_kind p =? 3); [destruct (o_now o) as [[ny nm] nd]; cbn; auto|]. destruct (IsoParse.p_kind p =? 2); [cbn; auto|exact K].
Qed.

Theorem pchain_parser_parse_eq du rs o s : iso_wf (iso8601 rs) -> wf_now o ->
  (forall r, base_parse du rs o s = Ok r -> wf_parsed r /\ kind_ok r) ->
  pchain_parser_parse rs (iso8601 rs) du s o = parse_full du rs o s.
Proof.
  intros Wi Wn Wr. unfold pchain_parser_parse, parse_full. destruct (is_now s); [reflexivity|].
  rewrite (pchain_parse_model du rs o s Wi Wn (fun r E => proj1 (Wr r E))).
  destruct (base_parse du rs o s) as [r|e] eqn:E; cbn [bind]; [|reflexivity].
  pose proof (normalize_kind_ok o r (proj2 (Wr r eq_refl))) as K. set (r' := normalize o r) in *. clearbody r'. clear E Wr r.
  cbv beta iota zeta. destruct r' as [[p|rd|x ob]|f].
  - cbn [kind_ok] in K. preds. unfold finish. destruct K as [K|[K|K]]; rewrite K; cbn [Z.eqb Pos.eqb orb]; reflexivity.
  - preds. unfold finish, pc_pendulum_duration, pc_rs, DurParse.rs_glue.
    destruct (DurParse.duration_native _ _ _ _ _ _ _ _) as [xo|e]; [reflexivity|]. rewrite isa_overflow. destruct e; reflexivity.
  - preds. reflexivity.
  - unfold finish. destruct f as [a b|a d|d b]; preds.
    + rewrite assemble_code_start_end. destruct (assemble rs o _) as [v|e]; [reflexivity|]. rewrite isa_overflow. destruct e; reflexivity.
    + rewrite assemble_code_start_dur. destruct (assemble rs o _) as [v|e]; [reflexivity|]. rewrite isa_overflow. destruct e; reflexivity.
    + rewrite assemble_code_dur_end. destruct (assemble rs o _) as [v|e]; [reflexivity|]. rewrite isa_overflow. destruct e; reflexivity.
Qed.

(* ------------------------------------------------------------------ the side condition on base_parse, from its two parameters *)
Definition native_ok (r : parsed) : Prop := wf_parsed r /\ kind_ok r.
Definition iso_native (iso : list Z -> result ival) : Prop := forall s i, iso s = Ok i -> native_ok (R_i i).
Definition du_native (du : list Z -> bool -> bool -> result IsoParse.pval) : Prop := forall s a b p, du s a b = Ok p -> native_ok (R_i (I_p p)).

Lemma mk_native r p : (exists y m d, r = IsoParse.mk_date y m d) \/ (exists H M S us off, r = IsoParse.mk_time H M S us off) \/
  (exists y m d H M S us off, r = IsoParse.mk_datetime y m d H M S us off) -> r = Ok p -> native_ok (R_i (I_p p)).
Proof.
  intros [(y & m & d & ->)|[(H & M & S & us & off & ->)|(y & m & d & H & M & S & us & off & ->)]].
  - unfold IsoParse.mk_date. destruct (IsoParse.valid_date y m d) eqn:V; [|discriminate]. intros E; injection E as <-.
    split; cbn; [split; [discriminate|intros _; exact V]|auto].
  - unfold IsoParse.mk_time. destruct (IsoParse.valid_time H M S us) eqn:V; [|discriminate]. intros E; injection E as <-.
    split; cbn; [split; [intros _; exact V|discriminate]|auto].
  - unfold IsoParse.mk_datetime. destruct (IsoParse.valid_date y m d && IsoParse.valid_time H M S us) eqn:V; [|discriminate]. intros E; injection E as <-.
    split; cbn; [split; discriminate|auto].
Qed.

Lemma common_native df s p : common_parse_df df s = Ok p -> native_ok (R_i (I_p p)).
Proof.
  unfold common_parse_df. cbv zeta. destruct (re_match COMMON_RE COMMON_NGROUPS (fold_str s)) as [c|]; [|discriminate].
  match goal with |- context [let '(a, b) := ?E in _] => destruct E as [month day] end.
  destruct (negb (IsoParse.has c G_COMMON_time)); [apply mk_native; left; eauto|].
  destruct (negb (IsoParse.has c G_COMMON_minute)); [discriminate|].
  destruct (IsoParse.has c G_COMMON_date); apply mk_native; [right; right; eauto 10|right; left; eauto 10].
Qed.

Lemma base_parse_native du rs o s r : iso_native (iso8601 rs) -> du_native du -> base_parse du rs o s = Ok r -> native_ok r.
Proof.
  intros Hi Hd. unfold base_parse. destruct (iso8601 rs s) as [i|e1] eqn:E1; [intros E; injection E as <-; exact (Hi _ _ E1)|].
  destruct (negb (is_ve e1)); [discriminate|]. destruct (interval_parse (iso8601 rs) s) as [f|e2]; [intros E; injection E as <-; split; exact I|].
  destruct (negb (is_ve e2)); [discriminate|]. destruct (common_parse_df (o_day_first o) s) as [p|e3] eqn:E3.
  - intros E; injection E as <-. exact (common_native _ _ _ E3).
  - destruct e3; try discriminate. destruct (o_strict o); [discriminate|].
    destruct (du s (o_day_first o) (o_year_first o)) as [p|e4] eqn:E4; [|destruct e4; discriminate].
    destruct (match IsoParse.p_off p with Some z => (z <=? -86400) || (86400 <=? z) | None => false end); [discriminate|].
    intros E; injection E as <-. exact (Hd _ _ _ _ E4).
Qed.

(* pendulum.parse(text, **options), every string and every option record: the translated chain is the model parse_full, provided parse_iso8601 and
   dateutil return objects of the native classes and options["now"] is a datetime *)
Theorem pchain_full_eq du rs o s : iso_native (iso8601 rs) -> du_native du -> wf_now o ->
  pchain_parser_parse rs (iso8601 rs) du s o = parse_full du rs o s.
Proof.
  intros Hi Hd Wn. apply pchain_parser_parse_eq; [intros x i E; exact (proj1 (Hi x i E))|exact Wn|].
  intros r E. exact (base_parse_native du rs o s r Hi Hd E).
Qed.

(* ------------------------------------------------------------------ parse_iso8601 returns objects of the native classes: BOTH backends, every string *)
(* every value either parser model returns was built by a validating constructor: the pyo3 glue's PyDateTime / PyDate / PyTime::new for the compiled
   parser (after the `as u8` casts), datetime / date / time for the pure-Python post-match code *)
Definition p_native (p : IsoParse.pval) : Prop :=
  (IsoParse.p_kind p = 1 /\ IsoParse.valid_date (IsoParse.p_y p) (IsoParse.p_m p) (IsoParse.p_d p) = true /\
   IsoParse.valid_time (IsoParse.p_H p) (IsoParse.p_M p) (IsoParse.p_S p) (IsoParse.p_us p) = true) \/
  (IsoParse.p_kind p = 2 /\ IsoParse.valid_date (IsoParse.p_y p) (IsoParse.p_m p) (IsoParse.p_d p) = true) \/
  (IsoParse.p_kind p = 3 /\ IsoParse.valid_time (IsoParse.p_H p) (IsoParse.p_M p) (IsoParse.p_S p) (IsoParse.p_us p) = true).

Lemma p_native_ok p : p_native p -> native_ok (R_i (I_p p)).
Proof.
  intros [(K & Vd & Vt)|[(K & Vd)|(K & Vt)]]; split; cbn [wf_parsed kind_ok]; auto; split; intros K'; try assumption; rewrite K in K'; discriminate.
Qed.

Lemma mk_date_native y m d p : IsoParse.mk_date y m d = Ok p -> p_native p.
Proof. unfold IsoParse.mk_date. destruct (IsoParse.valid_date y m d) eqn:V; [|discriminate]. intros E; injection E as <-. right; left. cbn. auto. Qed.
Lemma mk_time_native H M S us off p : IsoParse.mk_time H M S us off = Ok p -> p_native p.
Proof. unfold IsoParse.mk_time. destruct (IsoParse.valid_time H M S us) eqn:V; [|discriminate]. intros E; injection E as <-. right; right. cbn. auto. Qed.
Lemma mk_datetime_native y m d H M S us off p : IsoParse.mk_datetime y m d H M S us off = Ok p -> p_native p.
Proof.
  unfold IsoParse.mk_datetime. destruct (IsoParse.valid_date y m d && IsoParse.valid_time H M S us) eqn:V; [|discriminate].
  apply andb_true_iff in V. intros E; injection E as <-. left. cbn. tauto.
Qed.

Theorem rs_parse_iso_native s p : IsoParse.rs_parse_iso s = Ok p -> p_native p.
Proof.
  unfold IsoParse.rs_parse_iso. destruct (IsoParse.rs_parse_datetime s) as [dt|]; [|discriminate].
  destruct (IsoParse.r_has_date dt), (IsoParse.r_has_time dt); try discriminate;
    [apply mk_datetime_native|apply mk_date_native|apply mk_time_native].
Qed.

Theorem py_parse_iso_native s p : IsoParse.py_parse_iso s = Ok p -> p_native p.
Proof.
  unfold IsoParse.py_parse_iso. destruct (re_match ISO_RE ISO_NGROUPS s) as [c|]; [|discriminate]. cbv zeta.
  destruct (IsoParse.py_datepart c) as [[[[year month] day] amb]|e]; [|discriminate].
  destruct (negb (IsoParse.has c G_ISO_time)).
  - destruct amb; [|apply mk_date_native].
    destruct (IsoParse.int_of_str _) as [hh|]; [|discriminate]. destruct (IsoParse.int_of_str _) as [mm|]; [|discriminate].
    destruct (IsoParse.int_of_str _) as [ss|]; [|discriminate]. apply mk_time_native.
  - destruct amb; [discriminate|]. destruct (IsoParse.has c G_ISO_date && negb (IsoParse.has c G_ISO_timesep)); [discriminate|].
    unfold IsoParse.py_timepart. cbv zeta.
    repeat match goal with |- (if ?b then Raise _ else _) = _ -> _ => destruct b; [discriminate|] end.
    match goal with |- match ?X with _ => _ end = _ -> _ => destruct X as [off|e]; [|discriminate] end.
    destruct (negb (IsoParse.has c G_ISO_date)); [apply mk_time_native|apply mk_datetime_native].
Qed.

Theorem iso8601_native rs : iso_native (iso8601 rs).
Proof.
  intros s i. destruct rs; cbn [iso8601].
  - unfold rs_iso8601. destruct (existsb is_surrogate s); [discriminate|].
    destruct (IsoParse.cur s =? IsoParse.ch_P).
    + destruct (DurParse.rs_raw s); [|discriminate]. intros E; injection E as <-. split; exact I.
    + unfold lift_p. destruct (IsoParse.rs_parse_iso s) as [p|e] eqn:E; [|discriminate]. intros H; injection H as <-.
      apply p_native_ok. exact (rs_parse_iso_native _ _ E).
  - unfold py_iso8601. cbv zeta. destruct (DurParse.match_duration (fold_str s)) as [m|].
    + destruct (negb (runs_ok m)); [discriminate|]. destruct (DurParse.py_native (fold_str s)) as [[x ob]|e]; [|destruct e; discriminate].
      intros E; injection E as <-. split; exact I.
    + unfold lift_p. destruct (IsoParse.py_parse_iso (fold_str s)) as [p|e] eqn:E; [|discriminate]. intros H; injection H as <-.
      apply p_native_ok. exact (py_parse_iso_native _ _ E).
Qed.

(* pendulum.parse(text, **options) = parse_full for every string, option record and backend; what remains assumed: the opaque dateutil argument returns
   native objects, options["now"] is a datetime *)
Theorem pchain_full_eq_all du rs o s : du_native du -> wf_now o ->
  pchain_parser_parse rs (iso8601 rs) du s o = parse_full du rs o s.
Proof. intros Hd Wn. exact (pchain_full_eq du rs o s (iso8601_native rs) Hd Wn). Qed.

Lemma lift_p_inv r p : lift_p r = Ok (I_p p) -> r = Ok p.
Proof. destruct r as [q|e]; cbn [lift_p]; [|discriminate]. intros E. injection E as <-. reflexivity. Qed.

Theorem iso8601_native_strong rs s i : iso8601 rs s = Ok i -> native_ok (R_i i) /\ match i with I_p p => p_native p | _ => True end.
Proof.
  intros E. split; [exact (iso8601_native rs s i E)|]. destruct i as [p| |]; try exact I. revert E.
  destruct rs; cbn [iso8601].
  - unfold rs_iso8601. destruct (existsb is_surrogate s); [discriminate|]. destruct (IsoParse.cur s =? IsoParse.ch_P).
    + destruct (DurParse.rs_raw s); discriminate.
    + intros E. apply lift_p_inv in E. exact (rs_parse_iso_native _ _ E).
  - unfold py_iso8601. cbv zeta. destruct (DurParse.match_duration (fold_str s)) as [m|].
    + destruct (negb (runs_ok m)); [discriminate|]. destruct (DurParse.py_native (fold_str s)) as [[x ob]|e]; [discriminate|destruct e; discriminate].
    + intros E. apply lift_p_inv in E. exact (py_parse_iso_native _ _ E).
Qed.
