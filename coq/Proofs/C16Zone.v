(* Proofs/C16Zone.v — DateTime weekday navigation in a tz-database zone (Model/WeekdayZone.v, part A).
   * In a zone where no local midnight and no local time at the instance's time of day is skipped ("transparent" at these two
     times of day: every fixed offset, every zone window without a gap at those times), every method is the Date method
     applied to the date part, with the time reset to 00:00 (kept iff keep_time): the full property, for every date.
   * Without any hypothesis on the zone: what nth_of (n <> 1) returns went through start_of("day") LAST — the walked
     instance never is the answer — so it is at 00:00 of the rebuilt day whenever that midnight exists.
   * With a skipped midnight the property fails (finding skipped-midnight-day): witnesses on the America/Sao_Paulo table. *)
From Coq Require Import ZArith List Bool Lia ZifyBool.
From PV Require Import Lib.PyBase Spec.Cal Spec.Zone Proofs.CalFacts Proofs.ZoneFacts Gen.DateGetters.
From PV Require Import Model.TzConvert Model.Weekday Model.WeekdayZone Proofs.C16Facts Proofs.C16DateTime.
Import ListNotations.
Ltac Zify.zify_post_hook ::= Z.to_euclidean_division_equations.
Open Scope Z_scope.

(* the local time W exists (possibly twice): Timezone.convert leaves it alone *)
Definition not_skipped (z : zone) (W : Z) : Prop := off_local z (sec W) true <= off_local z (sec W) false.
(* no day of the zone skips the time of day tod *)
Definition transparent (z : zone) (tod : Z) : Prop := forall p, wf_date p -> not_skipped z (wall_of_date p tod).
Definition tod_ok (tod : Z) : Prop := 0 <= tod < us_per_day.

Definition zlift (r : result pdate) (tod : Z) (f : bool) : result zdt := bind r (fun p => Ok (mkz p tod f)).

Lemma convert_not_skipped z W f : not_skipped z W -> convert_naive z W f false = Ok (W, f).
Proof.
  unfold not_skipped, convert_naive. intros H.
  destruct (off_local z (sec W) true >? off_local z (sec W) false) eqn:E; [lia|].
  rewrite andb_false_r. reflexivity.
Qed.

Lemma us_per_day_pos : 0 < us_per_day. Proof. reflexivity. Qed.

Lemma wall_split n tod : tod_ok tod -> ((n - 1) * us_per_day + tod) / us_per_day + 1 = n /\ ((n - 1) * us_per_day + tod) mod us_per_day = tod.
Proof.
  unfold tod_ok. intros H. pose proof us_per_day_pos as U.
  replace ((n - 1) * us_per_day + tod) with (tod + (n - 1) * us_per_day) by ring.
  rewrite Z_div_plus by lia. rewrite Z_mod_plus by lia. rewrite Z.div_small by lia. rewrite Z.mod_small by lia. lia.
Qed.

Lemma zdt_of_wall_date p tod f : wf_date p -> tod_ok tod -> zdt_of_wall (wall_of_date p tod) f = mkz p tod f.
Proof.
  intros W T. unfold zdt_of_wall, wall_of_date. destruct (wall_split (date_ord p) tod T) as [-> ->].
  f_equal. apply (P_date_ord p W).
Qed.

Lemma z_create_not_skipped z y m d tod f p : tod_ok tod -> date_new y m d = Ok p -> not_skipped z (wall_of_date p tod) ->
  z_create z y m d tod f = Ok (mkz p tod f).
Proof.
  intros T E N. unfold z_create. rewrite E. cbn [bind]. rewrite convert_not_skipped by assumption.
  rewrite zdt_of_wall_date; [reflexivity| |assumption]. now destruct (date_new_result _ _ _ _ E).
Qed.

Lemma z_create_transparent z y m d tod f : tod_ok tod -> transparent z tod ->
  z_create z y m d tod f = zlift (date_new y m d) tod f.
Proof.
  intros T Tr. unfold zlift. destruct (date_new y m d) as [p|e] eqn:E; cbn [bind].
  - apply z_create_not_skipped; try assumption. apply Tr. now destruct (date_new_result _ _ _ _ E).
  - unfold z_create. rewrite E. reflexivity.
Qed.

(* ------------------------------------------------------------------ transparent zones: the Date functions, lifted *)
Section Transparent.
Variable z : zone.
Hypothesis T0 : transparent z 0.

Definition okt (tod : Z) : Prop := tod_ok tod /\ transparent z tod.
Lemma okt0 : okt 0. Proof. split; [unfold tod_ok; pose proof us_per_day_pos; lia|exact T0]. Qed.

Lemma z_start_of_day_wf p tod f : wf_date p -> z_start_of_day z (mkz p tod f) = Ok (mkz p 0 f).
Proof.
  intros W. unfold z_start_of_day. cbn [z_date z_fold]. destruct okt0 as [A B].
  rewrite z_create_transparent by assumption. rewrite date_new_wf by assumption. reflexivity.
Qed.

Lemma z_add_days_lift p tod f k : okt tod -> wf_date p ->
  z_add_days z (mkz p tod f) k = zlift (date_add_days p k) tod true.
Proof.
  intros [A B] W. unfold z_add_days. cbn [z_date z_tod z_fold]. unfold zlift.
  destruct (date_add_days p k) as [q|e] eqn:E; cbn [bind]; [|reflexivity].
  rewrite z_create_transparent by assumption. rewrite date_new_wf by (eapply date_add_days_wf; eassumption). reflexivity.
Qed.

Lemma z_next_loop_lift wd tod : okt tod -> forall fuel p f, wf_date p ->
  exists f', z_next_loop z fuel wd (mkz p tod f) = zlift (d_next_loop fuel wd p) tod f'.
Proof.
  intros K. induction fuel as [|fuel IH]; intros p f W; [exists f; reflexivity|].
  cbn [z_next_loop d_next_loop z_date]. destruct (negb (dow p =? wd)); [|exists f; reflexivity].
  rewrite z_add_days_lift by assumption. unfold zlift at 1.
  destruct (date_add_days p 1) as [q|e] eqn:E; cbn [bind]; [|exists f; reflexivity].
  apply IH. eapply date_add_days_wf; eassumption.
Qed.

Lemma z_prev_loop_lift wd tod : okt tod -> forall fuel p f, wf_date p ->
  exists f', z_prev_loop z fuel wd (mkz p tod f) = zlift (d_prev_loop fuel wd p) tod f'.
Proof.
  intros K. induction fuel as [|fuel IH]; intros p f W; [exists f; reflexivity|].
  cbn [z_prev_loop d_prev_loop z_date]. destruct (negb (dow p =? wd)); [|exists f; reflexivity].
  rewrite z_add_days_lift by assumption. unfold zlift at 1.
  destruct (date_add_days p (-1)) as [q|e] eqn:E; cbn [bind]; [|exists f; reflexivity].
  apply IH. eapply date_add_days_wf; eassumption.
Qed.

(* next / previous: the Date answer, the time of day 00:00 or kept, some fold *)
Theorem z_next_lift p tod f o (keep : bool) : wf_date p -> okt (if keep then tod else 0) ->
  exists f', z_next z (mkz p tod f) o keep = zlift (d_next p o) (if keep then tod else 0) f'.
Proof.
  intros W K. unfold z_next, d_next. cbn [z_date].
  destruct (wd_invalid _); [exists f; reflexivity|].
  assert (E : (if keep then Ok (mkz p tod f) else z_start_of_day z (mkz p tod f)) = Ok (mkz p (if keep then tod else 0) f)).
  { destruct keep; [reflexivity|]. now apply z_start_of_day_wf. }
  rewrite E. cbn [bind]. rewrite z_add_days_lift by assumption. unfold zlift at 1.
  destruct (date_add_days p 1) as [q|e] eqn:E1; cbn [bind]; [|exists f; reflexivity].
  apply z_next_loop_lift; [assumption|]. eapply date_add_days_wf; eassumption.
Qed.

Theorem z_previous_lift p tod f o (keep : bool) : wf_date p -> okt (if keep then tod else 0) ->
  exists f', z_previous z (mkz p tod f) o keep = zlift (d_previous p o) (if keep then tod else 0) f'.
Proof.
  intros W K. unfold z_previous, d_previous. cbn [z_date].
  destruct (wd_invalid _); [exists f; reflexivity|].
  assert (E : (if keep then Ok (mkz p tod f) else z_start_of_day z (mkz p tod f)) = Ok (mkz p (if keep then tod else 0) f)).
  { destruct keep; [reflexivity|]. now apply z_start_of_day_wf. }
  rewrite E. cbn [bind]. rewrite z_add_days_lift by assumption. unfold zlift at 1.
  destruct (date_add_days p (-1)) as [q|e] eqn:E1; cbn [bind]; [|exists f; reflexivity].
  apply z_prev_loop_lift; [assumption|]. eapply date_add_days_wf; eassumption.
Qed.

Lemma z_set_day_lift p f c : z_set_day z (mkz p 0 f) c = zlift (date_set_day p c) 0 f.
Proof. unfold z_set_day, date_set_day. cbn [z_date z_tod z_fold]. destruct okt0. now apply z_create_transparent. Qed.

Lemma z_first_of_month_lift p tod f o : wf_date p ->
  z_first_of_month z (mkz p tod f) o = zlift (d_first_of_month p o) 0 f.
Proof.
  intros W. unfold z_first_of_month. rewrite z_start_of_day_wf by assumption. cbn [bind z_date].
  unfold d_first_of_month. destruct o as [w|]; [|apply z_set_day_lift].
  destruct (mc_get (d_year p) (d_month p) 0 w) as [c0|e]; cbn [bind zlift]; [|reflexivity].
  destruct (c0 >? 0); [apply z_set_day_lift|].
  destruct (mc_get (d_year p) (d_month p) 1 w) as [c1|e]; cbn [bind zlift]; [apply z_set_day_lift|reflexivity].
Qed.

Lemma z_last_of_month_lift p tod f o : wf_date p ->
  z_last_of_month z (mkz p tod f) o = zlift (d_last_of_month p o) 0 f.
Proof.
  intros W. unfold z_last_of_month. rewrite z_start_of_day_wf by assumption. cbn [bind z_date].
  unfold d_last_of_month. destruct o as [w|]; [|apply z_set_day_lift].
  destruct (mc_get (d_year p) (d_month p) (-1) w) as [c0|e]; cbn [bind zlift]; [|reflexivity].
  destruct (c0 >? 0); [apply z_set_day_lift|].
  destruct (mc_get (d_year p) (d_month p) (-2) w) as [c1|e]; cbn [bind zlift]; [apply z_set_day_lift|reflexivity].
Qed.

Lemma z_via_create y m d tod f (ft : zdt -> result zdt) (fd : pdate -> result pdate) : okt tod ->
  (forall q, wf_date q -> ft (mkz q tod f) = zlift (fd q) 0 f) ->
  bind (z_create z y m d tod f) ft = zlift (bind (date_new y m d) fd) 0 f.
Proof.
  intros [A B] H. rewrite z_create_transparent by assumption. unfold zlift at 1.
  destruct (date_new y m d) as [q|e] eqn:E; cbn [bind zlift]; [|reflexivity].
  apply H. now destruct (date_new_result _ _ _ _ E).
Qed.

Theorem z_first_of_lift u p tod f o : wf_date p -> okt tod ->
  z_first_of z u (mkz p tod f) o = zlift (d_first_of u p o) 0 f.
Proof.
  intros W K. unfold z_first_of, d_first_of.
  destruct (u =? U_MONTH); [now apply z_first_of_month_lift|].
  destruct (u =? U_QUARTER).
  { unfold z_first_of_quarter, d_first_of_quarter, z_on, date_set_ymd. cbn [z_date z_tod z_fold].
    apply z_via_create; [assumption|]. intros q Wq. now apply z_first_of_month_lift. }
  destruct (u =? U_YEAR); [|reflexivity].
  unfold z_first_of_year, d_first_of_year, z_set_month, date_set_month. cbn [z_date z_tod z_fold].
  apply z_via_create; [assumption|]. intros q Wq. now apply z_first_of_month_lift.
Qed.

Theorem z_last_of_lift u p tod f o : wf_date p -> okt tod ->
  z_last_of z u (mkz p tod f) o = zlift (d_last_of u p o) 0 f.
Proof.
  intros W K. unfold z_last_of, d_last_of.
  destruct (u =? U_MONTH); [now apply z_last_of_month_lift|].
  destruct (u =? U_QUARTER).
  { unfold z_last_of_quarter, d_last_of_quarter, z_on, date_set_ymd. cbn [z_date z_tod z_fold].
    apply z_via_create; [assumption|]. intros q Wq. now apply z_last_of_month_lift. }
  destruct (u =? U_YEAR); [|reflexivity].
  unfold z_last_of_year, d_last_of_year, z_set_month, date_set_month. cbn [z_date z_tod z_fold].
  apply z_via_create; [assumption|]. intros q Wq. now apply z_last_of_month_lift.
Qed.

Lemma z_iter_next_lift wd : valid_wd wd -> forall k p f, wf_date p ->
  exists f', z_iter_next z k wd (mkz p 0 f) = zlift (d_iter_next k wd p) 0 f'.
Proof.
  intros Hwd. induction k as [|k IH]; intros p f W; [exists f; reflexivity|].
  cbn [z_iter_next d_iter_next].
  destruct (z_next_lift p 0 f (Some wd) false W okt0) as [f1 E]. rewrite E. cbn iota. unfold zlift at 1.
  destruct (d_next p (Some wd)) as [q|e] eqn:E1; cbn [bind]; [|exists f; reflexivity].
  apply IH. eapply d_next_wf; [exact W| |exact E1]. exact Hwd.
Qed.

Definition zlift_opt (r : result (option pdate)) (f : bool) : result (option zdt) :=
  bind r (fun o => Ok (match o with Some p => Some (mkz p 0 f) | None => None end)).

Lemma z_rebuild_lift y m d tod f : okt tod ->
  bind (z_create z y m d tod f) (fun r => bind (z_start_of_day z r) (fun r' => Ok (Some r')))
  = zlift_opt (bind (date_new y m d) (fun r => Ok (Some r))) f.
Proof.
  intros [A B]. rewrite z_create_transparent by assumption. unfold zlift, zlift_opt.
  destruct (date_new y m d) as [q|e] eqn:E; cbn [bind]; [|reflexivity].
  rewrite z_start_of_day_wf by (now destruct (date_new_result _ _ _ _ E)). reflexivity.
Qed.

Lemma z_nth_of_month_lift p tod f n wd : wf_date p -> valid_wd wd -> okt tod ->
  z_nth_of_month z (mkz p tod f) n wd = zlift_opt (d_nth_of_month p n wd) f.
Proof.
  intros W Hwd K. unfold z_nth_of_month, d_nth_of_month. destruct (n =? 1).
  { rewrite z_first_of_lift by assumption. unfold zlift, zlift_opt.
    destruct (d_first_of U_MONTH p (Some wd)); reflexivity. }
  rewrite z_first_of_lift by assumption. unfold zlift at 1.
  destruct (d_first_of U_MONTH p None) as [dt0|e] eqn:E0; cbn [bind zlift_opt]; [|reflexivity].
  assert (W0 : wf_date dt0) by (eapply first_of_none_wf; [apply is_unit_M|exact W|exact E0]).
  cbn [z_date]. destruct (z_iter_next_lift wd Hwd (nth_iters n wd dt0) dt0 f W0) as [f1 E]. rewrite E. unfold zlift at 1.
  destruct (d_iter_next (nth_iters n wd dt0) wd dt0) as [dt|e] eqn:E1; cbn [bind]; [|reflexivity].
  cbn [z_date]. destruct (same_year_month dt dt0); [|reflexivity].
  unfold z_set_day, date_set_day. cbn [z_date z_tod z_fold]. now apply z_rebuild_lift.
Qed.

Lemma z_nth_of_quarter_lift p tod f n wd : wf_date p -> valid_wd wd -> okt tod ->
  z_nth_of_quarter z (mkz p tod f) n wd = zlift_opt (d_nth_of_quarter p n wd) f.
Proof.
  intros W Hwd K. unfold z_nth_of_quarter, d_nth_of_quarter. destruct (n =? 1).
  { rewrite z_first_of_lift by assumption. unfold zlift, zlift_opt.
    destruct (d_first_of U_QUARTER p (Some wd)); reflexivity. }
  unfold z_on at 1, date_set_ymd at 1. cbn [z_date z_tod z_fold]. destruct K as [A B].
  rewrite z_create_transparent by assumption. unfold zlift at 1.
  destruct (date_new (d_year p) (py_Date_quarter p * 3) 1) as [dtq|e] eqn:Eq; cbn [bind zlift_opt]; [|reflexivity].
  destruct (date_new_result _ _ _ _ Eq) as [Wq _]. cbn [z_date].
  rewrite z_first_of_lift by (try assumption; split; assumption). unfold zlift at 1.
  destruct (d_first_of U_QUARTER dtq None) as [dt0|e] eqn:E0; cbn [bind]; [|reflexivity].
  assert (W0 : wf_date dt0) by (eapply first_of_none_wf; [apply is_unit_Q|exact Wq|exact E0]).
  cbn [z_date]. destruct (z_iter_next_lift wd Hwd (nth_iters n wd dt0) dt0 f W0) as [f1 E]. rewrite E. unfold zlift at 1.
  destruct (d_iter_next (nth_iters n wd dt0) wd dt0) as [dt|e] eqn:E1; cbn [bind]; [|reflexivity].
  cbn [z_date]. destruct ((d_month dtq <? d_month dt) || negb (d_year dtq =? d_year dt)); [reflexivity|].
  unfold z_on, date_set_ymd. cbn [z_date z_tod z_fold]. apply z_rebuild_lift. split; assumption.
Qed.

Lemma z_nth_of_year_lift p tod f n wd : wf_date p -> valid_wd wd -> okt tod ->
  z_nth_of_year z (mkz p tod f) n wd = zlift_opt (d_nth_of_year p n wd) f.
Proof.
  intros W Hwd K. unfold z_nth_of_year, d_nth_of_year. destruct (n =? 1).
  { rewrite z_first_of_lift by assumption. unfold zlift, zlift_opt.
    destruct (d_first_of U_YEAR p (Some wd)); reflexivity. }
  rewrite z_first_of_lift by assumption. unfold zlift at 1.
  destruct (d_first_of U_YEAR p None) as [dt0|e] eqn:E0; cbn [bind zlift_opt]; [|reflexivity].
  assert (W0 : wf_date dt0) by (eapply first_of_none_wf; [apply is_unit_Y|exact W|exact E0]).
  cbn [z_date]. destruct (z_iter_next_lift wd Hwd (nth_iters n wd dt0) dt0 f W0) as [f1 E]. rewrite E. unfold zlift at 1.
  destruct (d_iter_next (nth_iters n wd dt0) wd dt0) as [dt|e] eqn:E1; cbn [bind]; [|reflexivity].
  cbn [z_date]. destruct (negb (d_year dt0 =? d_year dt)); [reflexivity|].
  unfold z_on, date_set_ymd. cbn [z_date z_tod z_fold]. now apply z_rebuild_lift.
Qed.

Theorem z_nth_of_lift u p tod f n wd : wf_date p -> valid_wd wd -> okt tod ->
  z_nth_of z u (mkz p tod f) n wd = zlift (d_nth_of u p n wd) 0 f.
Proof.
  intros W Hwd K. unfold z_nth_of, d_nth_of.
  assert (G : forall (rt : result (option zdt)) (rd : result (option pdate)), rt = zlift_opt rd f ->
    bind rt (fun o => match o with Some d => Ok d | None => Raise E_PendulumException end)
    = zlift (bind rd (fun o => match o with Some d => Ok d | None => Raise E_PendulumException end)) 0 f).
  { intros rt rd ->. unfold zlift_opt, zlift. destruct rd as [[q|]|e]; reflexivity. }
  assert (C : forall (rt : result (option zdt)) (rd : result (option pdate)), rt = zlift_opt rd f ->
    overflow_to_none rt = zlift_opt (overflow_to_none rd) f).
  { intros rt rd ->. unfold zlift_opt. destruct rd as [[q|]|e]; try reflexivity. destruct e; reflexivity. }
  apply G.
  destruct (u =? U_MONTH); [apply C; now apply z_nth_of_month_lift|].
  destruct (u =? U_QUARTER); [apply C; now apply z_nth_of_quarter_lift|].
  destruct (u =? U_YEAR); [apply C; now apply z_nth_of_year_lift|reflexivity].
Qed.
End Transparent.

(* fixed offsets (and UTC, and every window of a zone without a transition) are transparent at every time of day *)
Lemma fixed_zone_transparent o tod : transparent (fixed_zone o) tod.
Proof. intros p _. unfold not_skipped. rewrite !fixed_zone_local. lia. Qed.

(* the hypotheses of the theorems above are satisfiable *)
Example transparent_example : transparent (fixed_zone 3600) 0 /\ okt (fixed_zone 3600) 34200000000 /\ wf_date (mkdate 2024 5 17).
Proof.
  split; [apply fixed_zone_transparent|]. split; [split; [unfold tod_ok, us_per_day; lia|apply fixed_zone_transparent]|].
  split; [reflexivity|cbn; lia].
Qed.

(* ------------------------------------------------------------------ any zone: the answer of nth_of is normalised last *)
Lemma bind_ok_inv {A B} (r : result A) (k : A -> result B) y : bind r k = Ok y -> exists x, r = Ok x /\ k x = Ok y.
Proof. destruct r as [x|e]; cbn [bind]; [|discriminate]. intros H. now exists x. Qed.

Lemma rebuilt_normalised z (r0 : result zdt) (o : option zdt) :
  bind r0 (fun r => bind (z_start_of_day z r) (fun r' => Ok (Some r'))) = Ok o ->
  exists x r, o = Some r /\ r0 = Ok x /\ z_start_of_day z x = Ok r.
Proof.
  intros H. apply bind_ok_inv in H. destruct H as (x & E & H). apply bind_ok_inv in H. destruct H as (r & E' & H).
  inversion H. now exists x, r.
Qed.

Definition came_through_start_of_day (z : zone) (r : zdt) : Prop := exists x, z_start_of_day z x = Ok r.

Lemma z_nth_of_month_normalised z self n wd r : n <> 1 -> z_nth_of_month z self n wd = Ok (Some r) -> came_through_start_of_day z r.
Proof.
  intros N. unfold z_nth_of_month. destruct (n =? 1) eqn:E1; [lia|]. intros H.
  apply bind_ok_inv in H. destruct H as (dt0 & _ & H). apply bind_ok_inv in H. destruct H as (dt & _ & H).
  destruct (same_year_month _ _); [|discriminate].
  apply rebuilt_normalised in H. destruct H as (x & r' & Eo & _ & S). inversion Eo. subst. now exists x.
Qed.

Lemma z_nth_of_quarter_normalised z self n wd r : n <> 1 -> z_nth_of_quarter z self n wd = Ok (Some r) -> came_through_start_of_day z r.
Proof.
  intros N. unfold z_nth_of_quarter. destruct (n =? 1) eqn:E1; [lia|]. intros H.
  apply bind_ok_inv in H. destruct H as (dtq & _ & H). apply bind_ok_inv in H. destruct H as (dt0 & _ & H).
  apply bind_ok_inv in H. destruct H as (dt & _ & H).
  destruct (_ || _); [discriminate|].
  apply rebuilt_normalised in H. destruct H as (x & r' & Eo & _ & S). inversion Eo. subst. now exists x.
Qed.

Lemma z_nth_of_year_normalised z self n wd r : n <> 1 -> z_nth_of_year z self n wd = Ok (Some r) -> came_through_start_of_day z r.
Proof.
  intros N. unfold z_nth_of_year. destruct (n =? 1) eqn:E1; [lia|]. intros H.
  apply bind_ok_inv in H. destruct H as (dt0 & _ & H). apply bind_ok_inv in H. destruct H as (dt & _ & H).
  destruct (negb _); [discriminate|].
  apply rebuilt_normalised in H. destruct H as (x & r' & Eo & _ & S). inversion Eo. subst. now exists x.
Qed.

Lemma overflow_to_none_some {A} (r : result (option A)) x : overflow_to_none r = Ok (Some x) -> r = Ok (Some x).
Proof. destruct r as [o|e]; cbn; [trivial|]. destruct e; discriminate. Qed.

(* the walked instance is never the answer: whatever nth_of (n <> 1) returns is the result of a start_of("day") *)
Theorem z_nth_of_normalised z u self n wd r : n <> 1 -> z_nth_of z u self n wd = Ok r -> came_through_start_of_day z r.
Proof.
  intros N. unfold z_nth_of. intros H. apply bind_ok_inv in H. destruct H as (o & E & H).
  destruct o as [d|]; [|discriminate]. inversion H. subst d.
  destruct (u =? U_MONTH); [apply overflow_to_none_some in E; eapply z_nth_of_month_normalised; eassumption|].
  destruct (u =? U_QUARTER); [apply overflow_to_none_some in E; eapply z_nth_of_quarter_normalised; eassumption|].
  destruct (u =? U_YEAR); [apply overflow_to_none_some in E; eapply z_nth_of_year_normalised; eassumption|discriminate].
Qed.

(* and start_of("day") of a day whose midnight exists is that midnight *)
Theorem z_start_of_day_midnight z x : wf_date (z_date x) -> not_skipped z (wall_of_date (z_date x) 0) ->
  z_start_of_day z x = Ok (mkz (z_date x) 0 (z_fold x)).
Proof.
  intros W N. unfold z_start_of_day. apply z_create_not_skipped; [unfold tod_ok, us_per_day; lia| |assumption].
  now apply date_new_wf.
Qed.

(* ------------------------------------------------------------------ the finding skipped-midnight-day, on the tz table *)
(* America/Sao_Paulo, December 2012 .. January 2014: -02:00 (summer time), -03:00 from 2013-02-17T00:00 local, -02:00 from
   2013-10-20T00:00 local: the local times 2013-10-20 00:00 .. 00:59:59 do not exist *)
Definition sao_paulo_2013 : zone := mkzone (-7200) [(63496663200, -10800); (63517834800, -7200)].

Theorem zone_next_skipped_midnight_refuted :
  exists z x wd r, wf2_zone z = true /\ wf_date (z_date x) /\ valid_wd wd /\
    z_next z x (Some wd) false = Ok r /\ date_ord (z_date r) <= date_ord (z_date x).
Proof.
  exists sao_paulo_2013, (mkz (mkdate 2013 10 20) 43200000000 false), 6, (mkz (mkdate 2013 10 20) 82800000000 true).
  split; [vm_compute; reflexivity|]. split; [split; [reflexivity|cbn; lia]|]. split; [unfold valid_wd; lia|].
  split; vm_compute; [reflexivity|discriminate].
Qed.

Theorem zone_first_of_skipped_midnight_refuted :
  exists z x r, wf2_zone z = true /\ wf_date (z_date x) /\ z_first_of z U_MONTH x None = Ok r /\ z_tod r <> 0 /\
    not_skipped z (wall_of_date (z_date r) 0).
Proof.
  exists sao_paulo_2013, (mkz (mkdate 2013 10 20) 43200000000 true), (mkz (mkdate 2013 10 1) 3600000000 false).
  split; [vm_compute; reflexivity|]. split; [split; [reflexivity|cbn; lia]|].
  split; [vm_compute; reflexivity|]. split; [cbn; lia|]. vm_compute. discriminate.
Qed.

(* ------------------------------------------------------------------ a decidable sufficient test for transparency *)
(* the local seconds skipped by the transition (t, init -> o), o > init, are t + init .. t + o - 1; none of them is at the
   time of day tod on ANY day iff the first second >= t + init that is congruent to it lies at or beyond t + o *)
Fixpoint gaps_avoid (init : Z) (tr : list (Z * Z)) (s : Z) : bool :=
  match tr with
  | [] => true
  | (t, o) :: r =>
    (if init <? o then t + o <=? (t + init) + (s - (t + init)) mod 86400 else true) && gaps_avoid o r s
  end.
Definition transparentb (z : zone) (tod : Z) : bool := gaps_avoid (z_init z) (z_trans z) (tod / MEG).

Lemma gaps_avoid_sound : forall tr init s w, wf_l init tr = true -> gaps_avoid init tr s = true -> w mod 86400 = s mod 86400 ->
  off_local_l init tr w true <= off_local_l init tr w false.
Proof.
  induction tr as [|[t o] r IH]; intros init s w Hwf G Hw; [cbn; lia|].
  cbn [gaps_avoid] in G. apply andb_true_iff in G. destruct G as [G1 G2].
  pose proof (wf_tail _ _ _ _ Hwf) as Hwf'. specialize (IH o s w Hwf' G2 Hw).
  cbn [off_local_l]. unfold wallb.
  destruct (w <? t + Z.min init o) eqn:E1; destruct (w <? t + Z.max init o) eqn:E2; try lia.
  - (* t + min <= w < t + max *)
    destruct (init <? o) eqn:Eg.
    + (* a gap: w would be a skipped second at the time of day s *) exfalso. lia.
    + rewrite (off_local_tail_small init t o r w true Hwf) by lia. lia.
Qed.

Theorem transparentb_sound z tod : wf_zone z = true -> tod_ok tod -> transparentb z tod = true -> transparent z tod.
Proof.
  intros Hwf T G p _. unfold not_skipped, off_local. apply (gaps_avoid_sound _ _ (tod / MEG)); [exact Hwf|exact G|].
  unfold sec, wall_of_date, tod_ok, us_per_day, MEG in *. lia.
Qed.

(* Europe/Paris, December 2012 .. January 2014 (summer time from 2013-03-31T01:00Z to 2013-10-27T01:00Z): nothing is skipped at
   00:00 nor at 09:30, so there the DateTime methods are the Date methods; 02:30 is skipped on 31 March *)
Definition paris_2013 : zone := mkzone 3600 [(63500288400, 7200); (63518432400, 3600)].
Example paris_2013_transparent : wf2_zone paris_2013 = true /\ transparent paris_2013 0 /\ okt paris_2013 34200000000 /\
  transparentb paris_2013 9000000000 = false.
Proof.
  assert (W : wf_zone paris_2013 = true) by (vm_compute; reflexivity).
  split; [vm_compute; reflexivity|]. split; [apply transparentb_sound; [exact W|unfold tod_ok, us_per_day; lia|vm_compute; reflexivity]|].
  split; [|vm_compute; reflexivity].
  split; [unfold tod_ok, us_per_day; lia|]. apply transparentb_sound; [exact W|unfold tod_ok, us_per_day; lia|vm_compute; reflexivity].
Qed.

Example sao_paulo_2013_not_transparent : transparentb sao_paulo_2013 0 = false /\ ~ transparent sao_paulo_2013 0.
Proof.
  split; [vm_compute; reflexivity|]. intros T. specialize (T (mkdate 2013 10 20) ltac:(split; [reflexivity|cbn; lia])).
  vm_compute in T. apply T. reflexivity.
Qed.
