(* Proofs/FixedTzInitFacts.v — C14: the default name FixedTimezone.__init__ computes (Gen/FixedTzInit.v, translated from /repo on every run: FLOAT division
   offset / 60, int(), divmod, f"{sign}{hour:02d}:{minute:02d}") EQUALS Model/Pickle.default_name (integer arithmetic, hand-written) for EVERY offset strictly
   between -24 h and +24 h (CPython's bound on tzinfo.utcoffset): exhaustive evaluation in the kernel (172799 offsets). *)
From Coq Require Import ZArith List Bool Lia.
From PV Require Import Lib.PyBase Lib.Reflect Model.Pickle Gen.FixedTzInit.
Import ListNotations.
Open Scope Z_scope.

Fixpoint zlist_eqb (a b : list Z) : bool :=
  match a, b with
  | [], [] => true
  | x :: a', y :: b' => (x =? y) && zlist_eqb a' b'
  | _, _ => false
  end.
Lemma zlist_eqb_eq a : forall b, zlist_eqb a b = true -> a = b.
Proof.
  induction a as [|x a IH]; intros [|y b] H; try discriminate; [reflexivity|].
  cbn in H. apply andb_true_iff in H. destruct H as [H1 H2]. apply Z.eqb_eq in H1. subst. f_equal. exact (IH _ H2).
Qed.

Definition name_agrees (off : Z) : bool :=
  match gen_FixedTimezone_default_name off with Ok s => zlist_eqb s (default_name off) | Raise _ => false end.

Lemma name_agrees_all : forall_range name_agrees (-86399) 86400 = true.
Proof. vm_compute. reflexivity. Qed.

Theorem gen_default_name_eq : forall off, -86400 < off < 86400 -> gen_FixedTimezone_default_name off = Ok (default_name off).
Proof.
  intros off H. pose proof (forall_range_spec _ _ _ name_agrees_all off ltac:(lia)) as K. unfold name_agrees in K.
  destruct (gen_FixedTimezone_default_name off) as [s|e]; [|discriminate]. rewrite (zlist_eqb_eq _ _ K). reflexivity.
Qed.
Print Assumptions gen_default_name_eq.
