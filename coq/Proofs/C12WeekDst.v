(* Proofs/C12WeekDst.v — start_of('week') in a tz-database zone whose walked days contain skipped wall times.
   previous() resets the time to 00:00 and then walks back day by day with add(days=-1); every step re-creates the carried wall time in
   the zone with the default fold 1, so a skipped wall time (a day that begins at 01:00) is moved FORWARD by the gap and the walk goes on
   with the shifted time of day.  As long as such a shift stays on its calendar day the walk still visits one day per step, reaches the
   week's first day — possibly at 01:00 — and the trailing start_of('day') of _start_of_week puts the result on that day's midnight.
   Hence: when the midnight of the value's day and of the week's first day exist, start_of('week') is the week's first microsecond, whatever
   happens to the midnights strictly inside the walk.  The same for next() / end_of('week') and the last microsecond of the week. *)
From Coq Require Import ZArith List Bool Lia ZifyBool.
From PV Require Import Lib.PyBase Spec.Cal Spec.Zone Spec.NativeDT Proofs.CalFacts Proofs.ZoneFacts Proofs.AddDurationFacts Proofs.C03Facts.
From PV Require Import Gen.Constants Gen.Helpers Gen.AddDuration Model.TzConvert Model.StartEndBase Gen.StartEnd Model.StartEnd.
From PV Require Import Proofs.C12Spec Proofs.C12Facts Proofs.C12Week.
Import ListNotations.
Ltac Zify.zify_post_hook ::= Z.to_euclidean_division_equations.
Open Scope Z_scope.

(* seconds by which create(.., fold=1) moves the wall second w forward: the length of the gap that contains w, 0 when w exists *)
Definition gap_shift (z : zone) (w : Z) : Z :=
  if off_local z w true >? off_local z w false then off_local z w true - off_local z w false else 0.
(* a wall value whose forward shift stays on its calendar day (true of every existing wall value) *)
Definition stays_in_day (z : zone) (W : Z) : Prop := W mod us_per_day + MEG * gap_shift z (sec W) < us_per_day.

Lemma gap_shift_nonneg z w : 0 <= gap_shift z w.
Proof. unfold gap_shift. destruct (off_local z w true >? off_local z w false) eqn:E; lia. Qed.

Lemma gap_shift_not_skipped z w : ~ wall_skipped z w -> gap_shift z w = 0.
Proof. unfold wall_skipped, gap_shift. intros H. destruct (off_local z w true >? off_local z w false) eqn:E; lia. Qed.

(* create with the default fold 1 in a tz-database zone *)
Lemma create_fold1 z W : create z false W true false =
  if gap_shift z (sec W) >? 0
  then (if wall_in_range (W + MEG * gap_shift z (sec W)) then Ok (W + MEG * gap_shift z (sec W), false) else Raise E_OverflowError)
  else Ok (W, true).
Proof.
  unfold create, convert_naive, gap_shift.
  destruct (off_local z (sec W) true >? off_local z (sec W) false) eqn:E.
  - replace (off_local z (sec W) true - off_local z (sec W) false >? 0) with true by lia. reflexivity.
  - cbn [Z.gtb Z.compare]. rewrite andb_false_r. reflexivity.
Qed.

Lemma mod7_step a : 1 <= a mod 7 -> (a - 1) mod 7 = a mod 7 - 1.
Proof. lia. Qed.
Lemma day_mul_div k : k * us_per_day / us_per_day = k.
Proof. apply Z.div_mul. rewrite upd_val. discriminate. Qed.

(* one step of the walk: a calendar day back (forward), then the forward shift of a skipped wall time *)
Lemma step_day_dst v k : v_kind v = 2 -> wall_in_range (v_W v) = true -> -1 <= k <= 1 ->
  wall_in_range (v_W v + k * us_per_day) = true -> stays_in_day (v_zone v) (v_W v + k * us_per_day) ->
  exists W' f', step_day v k = Ok (W', f') /\ wall_in_range W' = true /\
                W' / us_per_day = v_W v / us_per_day + k /\ v_W v + k * us_per_day <= W'.
Proof.
  intros Hk Hr Hkk Hr2 St. unfold step_day. rewrite (add_duration_days (v_W v) k Hr ltac:(lia)). rewrite Hr2. cbn [n_wall].
  replace (v_kind v =? 0) with false by lia. replace (v_kind v =? 1) with false by lia.
  rewrite create_fold1. set (W2 := v_W v + k * us_per_day) in *.
  pose proof (gap_shift_nonneg (v_zone v) (sec W2)) as G0. unfold stays_in_day in St.
  pose proof (proj1 (wall_in_range_iff _) Hr2) as HW2. unfold MEG in *.
  destruct (gap_shift (v_zone v) (sec W2) >? 0) eqn:E.
  - assert (R : wall_in_range (W2 + 1000000 * gap_shift (v_zone v) (sec W2)) = true)
      by (apply wall_in_range_iff; rewrite upd_val in *; lia).
    rewrite R. eexists _, _. split; [reflexivity|]. split; [exact R|]. unfold W2 in *. rewrite upd_val in *. lia.
  - eexists _, _. split; [reflexivity|]. split; [exact Hr2|]. unfold W2. rewrite upd_val. lia.
Qed.

(* the walk never changes the zone of the value *)
Lemma walk_keeps_zone fuel : forall k wd v v', dt_walk fuel k wd v = Ok v' -> v_zone v' = v_zone v /\ v_kind v' = v_kind v.
Proof.
  induction fuel as [|fuel IH]; intros k wd v v' H; [discriminate|].
  cbn [dt_walk] in H. destruct (negb (wall_dow (v_W v) =? wd)).
  - destruct (step_day v k) as [r|e]; [|discriminate]. cbn [bind] in H. apply IH in H. exact H.
  - inversion H. split; reflexivity.
Qed.

(* the backward walk over days that may contain skipped wall times: it reaches the day j days back, at some time of that day *)
Lemma walk_back_dst fuel : forall v wd, v_kind v = 2 -> wall_in_range (v_W v) = true -> 0 <= wd <= 6 ->
  let k := v_W v / us_per_day in
  let j := (k - wd) mod 7 in
  j < Z.of_nat fuel -> 0 <= k - j ->
  (forall W', (k - j) * us_per_day <= W' < k * us_per_day -> stays_in_day (v_zone v) W') ->
  exists W' f', dt_walk fuel (-1) wd v = Ok (mkdtv (v_zone v) (v_kind v) W' f') /\ wall_in_range W' = true /\ W' / us_per_day = k - j.
Proof.
  induction fuel as [|fuel IH]; intros v wd Hk Hr Hwd k j Hj H0 St; [lia|].
  cbn [dt_walk]. rewrite wall_dow_eq. fold k.
  pose proof (proj1 (wall_in_range_iff _) Hr) as HW.
  destruct (negb (k mod 7 =? wd)) eqn:E.
  - assert (Hj1 : 1 <= j) by (unfold j; lia).
    assert (Hr2 : wall_in_range (v_W v + -1 * us_per_day) = true)
      by (apply wall_in_range_iff; unfold k in *; rewrite upd_val in *; lia).
    assert (St2 : stays_in_day (v_zone v) (v_W v + -1 * us_per_day))
      by (apply St; unfold k in *; rewrite upd_val in *; lia).
    destruct (step_day_dst v (-1) Hk Hr ltac:(lia) Hr2 St2) as [W1 [f1 [S [R1 [D1 _]]]]].
    rewrite S. cbn [bind].
    specialize (IH (upd v (W1, f1)) wd Hk R1 Hwd). cbv zeta in IH. cbn [upd fst snd v_W v_zone v_kind v_fold] in IH.
    rewrite D1 in IH. fold k in IH.
    assert (Ej : (k + -1 - wd) mod 7 = j - 1) by (unfold j; lia).
    rewrite Ej in IH.
    destruct IH as [W' [f' [Hw [Rw Dw]]]]; [lia|lia| |].
    + intros W'' HW''. apply St. rewrite upd_val in *. lia.
    + exists W', f'. cbn [upd fst snd v_W v_zone v_kind v_fold]. split; [exact Hw|]. split; [exact Rw|]. lia.
  - assert (Hj0 : j = 0) by (unfold j; lia).
    exists (v_W v), (v_fold v). split; [destruct v; reflexivity|]. split; [exact Hr|]. fold k. lia.
Qed.

Lemma start_of_day_dst v : v_kind v = 2 -> wall_in_range (v_W v) = true ->
  ~ wall_skipped (v_zone v) (sec (v_W v / us_per_day * us_per_day)) ->
  dt_start_of_day v = Ok (v_W v / us_per_day * us_per_day, v_fold v).
Proof.
  intros Hk Hr Hs. unfold dt_start_of_day.
  rewrite (set_from_start v 3 Hr ltac:(lia)); [|right; right; rewrite unit_lo_3; exact Hs].
  rewrite unit_lo_3. unfold fold_out. rewrite Hk. reflexivity.
Qed.

(* the week's first day as a day index *)
Lemma unit_lo_4_day ws W : unit_lo 4 ws W / us_per_day = W / us_per_day - (W / us_per_day - ws) mod 7.
Proof. rewrite unit_lo_4, upd_val. lia. Qed.

Theorem start_week_dst ws v : v_kind v = 2 -> wall_in_range (v_W v) = true -> 0 <= ws <= 6 ->
  let z := v_zone v in let W := v_W v in let lo := unit_lo 4 ws W in
  0 <= lo ->
  ~ wall_skipped z (sec (unit_lo 3 0 W)) ->            (* the midnight of the value's own day exists *)
  ~ wall_skipped z (sec lo) ->                         (* the midnight of the week's first day exists *)
  (forall W', lo <= W' < unit_lo 3 0 W -> stays_in_day z W') ->     (* skipped wall times on the walked days are moved within their day *)
  exists f', dt_start_of ws 4 v = Ok (lo, f') /\ dt_start_of ws 4 (upd v (lo, f')) = Ok (lo, f').
Proof.
  intros Hk Hr Hws z W lo H0 Hsx Hslo St.
  pose proof (proj1 (wall_in_range_iff _) Hr) as HW. fold W in HW.
  set (k := W / us_per_day). set (j := (k - ws) mod 7).
  assert (Elo : lo = (k - j) * us_per_day) by (unfold lo; rewrite unit_lo_4; reflexivity).
  assert (Ex : unit_lo 3 0 W = k * us_per_day) by (rewrite unit_lo_3; reflexivity).
  assert (Hk0 : 0 <= k - j) by (rewrite Elo, upd_val in H0; lia).
  assert (Rlo : wall_in_range lo = true) by (apply wall_in_range_iff; rewrite Elo; unfold k in *; rewrite upd_val in *; lia).
  assert (Dlo : lo / us_per_day * us_per_day = lo) by (rewrite Elo, upd_val; lia).
  assert (DOWlo : wall_dow lo = ws) by (rewrite wall_dow_eq, Elo; unfold j; rewrite upd_val; lia).
  (* idempotence: on the week's first day start_of('week') is start_of('day') *)
  assert (Idem : forall f', dt_start_of ws 4 (upd v (lo, f')) = Ok (lo, f')).
  { intros f'. cbn [dt_start_of]. unfold dt_start_of_week. cbn [upd fst snd v_W]. rewrite DOWlo.
    replace (negb (ws =? ws)) with false by lia.
    rewrite (start_of_day_dst (upd v (lo, f')) Hk); cbn [upd fst snd v_W v_zone v_fold]; [rewrite Dlo; reflexivity|exact Rlo|rewrite Dlo; exact Hslo]. }
  cbn [dt_start_of]. unfold dt_start_of_week. fold W. rewrite wall_dow_eq. fold k.
  destruct (negb (k mod 7 =? ws)) eqn:E.
  - assert (Hj1 : 1 <= j) by (unfold j; lia).
    unfold dt_previous.
    rewrite (start_of_day_dst v Hk Hr); [|fold W; rewrite <- unit_lo_3 with (ws := 0); exact Hsx].
    cbn [bind]. fold W. fold k.
    set (v1 := upd v (k * us_per_day, v_fold v)).
    assert (R1 : wall_in_range (v_W v1) = true) by (apply wall_in_range_iff; cbn; unfold k in *; rewrite upd_val in *; lia).
    assert (R2 : wall_in_range (v_W v1 + -1 * us_per_day) = true)
      by (apply wall_in_range_iff; cbn [v1 upd fst v_W]; unfold k in *; rewrite upd_val in *; lia).
    assert (S2 : stays_in_day (v_zone v1) (v_W v1 + -1 * us_per_day))
      by (apply St; cbn [v1 upd fst v_W]; rewrite Elo, Ex, upd_val in *; lia).
    destruct (step_day_dst v1 (-1) Hk R1 ltac:(lia) R2 S2) as [W2 [f2 [S [RW2 [D2 _]]]]].
    rewrite S. cbn [bind].
    assert (D1 : v_W v1 / us_per_day = k) by (cbn [v1 upd fst v_W]; apply day_mul_div).
    rewrite D1 in D2.
    assert (Ej : (k + -1 - ws) mod 7 = j - 1) by (replace (k + -1 - ws) with (k - ws - 1) by ring; apply mod7_step; exact Hj1).
    pose proof (walk_back_dst WALK_FUEL (upd v1 (W2, f2)) ws Hk RW2 Hws) as WB. cbv zeta in WB.
    cbn [upd fst snd v_W v_zone v_kind v_fold v1] in WB. rewrite D2, Ej in WB.
    destruct WB as [W3 [f3 [Hw [R3 D3]]]].
    + unfold WALK_FUEL. lia.
    + lia.
    + intros W'' HW''. apply St. rewrite Elo, Ex. rewrite upd_val in *. lia.
    + cbn [upd fst snd v_W v_zone v_kind v_fold v1]. rewrite Hw. cbn [bind].
      assert (E3 : W3 / us_per_day * us_per_day = lo) by (rewrite Elo, D3; f_equal; lia).
      rewrite (start_of_day_dst (mkdtv (v_zone v) (v_kind v) W3 f3) Hk); cbn [v_W v_zone v_fold]; [|exact R3|rewrite E3; exact Hslo].
      rewrite E3. exists f3. split; [reflexivity|apply Idem].
  - assert (Hj0 : j = 0) by (unfold j; lia).
    rewrite (start_of_day_dst v Hk Hr); [|fold W; rewrite <- unit_lo_3 with (ws := 0); exact Hsx].
    fold W. fold k. replace (k * us_per_day) with lo by (rewrite Elo; f_equal; lia).
    exists (v_fold v). split; [reflexivity|apply Idem].
Qed.

(* ---------- the forward walk: end_of('week') ---------- *)
Lemma mod7_step_fwd a : 1 <= a mod 7 -> (a - 1) mod 7 = a mod 7 - 1.
Proof. lia. Qed.
Lemma we_distance ws k : 0 <= ws <= 6 -> ((ws + 6) mod 7 - k) mod 7 = 6 - (k - ws) mod 7.
Proof. lia. Qed.

Lemma walk_fwd_dst fuel : forall v wd, v_kind v = 2 -> wall_in_range (v_W v) = true -> 0 <= wd <= 6 ->
  let k := v_W v / us_per_day in
  let j := (wd - k) mod 7 in
  j < Z.of_nat fuel -> k + j <= 3652058 ->
  (forall W', (k + 1) * us_per_day <= W' < (k + j + 1) * us_per_day -> stays_in_day (v_zone v) W') ->
  exists W' f', dt_walk fuel 1 wd v = Ok (mkdtv (v_zone v) (v_kind v) W' f') /\ wall_in_range W' = true /\ W' / us_per_day = k + j.
Proof.
  induction fuel as [|fuel IH]; intros v wd Hk Hr Hwd k j Hj H0 St; [lia|].
  cbn [dt_walk]. rewrite wall_dow_eq. fold k.
  pose proof (proj1 (wall_in_range_iff _) Hr) as HW.
  destruct (negb (k mod 7 =? wd)) eqn:E.
  - assert (Hj1 : 1 <= j) by (unfold j; lia).
    assert (Hr2 : wall_in_range (v_W v + 1 * us_per_day) = true)
      by (apply wall_in_range_iff; unfold k in *; rewrite upd_val in *; lia).
    assert (St2 : stays_in_day (v_zone v) (v_W v + 1 * us_per_day))
      by (apply St; unfold k in *; rewrite upd_val in *; lia).
    destruct (step_day_dst v 1 Hk Hr ltac:(lia) Hr2 St2) as [W1 [f1 [S [R1 [D1 _]]]]].
    rewrite S. cbn [bind].
    specialize (IH (upd v (W1, f1)) wd Hk R1 Hwd). cbv zeta in IH. cbn [upd fst snd v_W v_zone v_kind v_fold] in IH.
    rewrite D1 in IH. fold k in IH.
    assert (Ej : (wd - (k + 1)) mod 7 = j - 1) by (replace (wd - (k + 1)) with (wd - k - 1) by ring; apply mod7_step_fwd; exact Hj1).
    rewrite Ej in IH.
    destruct IH as [W' [f' [Hw [Rw Dw]]]]; [lia|lia| |].
    + intros W'' HW''. apply St. rewrite upd_val in *. lia.
    + exists W', f'. cbn [upd fst snd v_W v_zone v_kind v_fold]. split; [exact Hw|]. split; [exact Rw|]. lia.
  - assert (Hj0 : j = 0) by (unfold j; lia).
    exists (v_W v), (v_fold v). split; [destruct v; reflexivity|]. split; [exact Hr|]. fold k. lia.
Qed.

Lemma end_of_day_dst v : v_kind v = 2 -> wall_in_range (v_W v) = true ->
  ~ wall_skipped (v_zone v) (sec (v_W v / us_per_day * us_per_day + (us_per_day - 1))) ->
  dt_end_of_day v = Ok (v_W v / us_per_day * us_per_day + (us_per_day - 1), v_fold v).
Proof.
  intros Hk Hr Hs. unfold dt_end_of_day.
  rewrite (set_from_end v 3 Hr ltac:(lia)); [|right; right; rewrite unit_hi_3; exact Hs].
  rewrite unit_hi_3. unfold fold_out. rewrite Hk. reflexivity.
Qed.

Theorem end_week_dst ws v : v_kind v = 2 -> wall_in_range (v_W v) = true -> 0 <= ws <= 6 ->
  let z := v_zone v in let W := v_W v in let hi := unit_hi 4 ws W in let we := (ws + 6) mod 7 in
  hi <= 315537897599999999 ->
  ~ wall_skipped z (sec (unit_lo 3 0 W)) ->            (* the midnight of the value's own day exists (next() starts from it) *)
  ~ wall_skipped z (sec hi) ->                         (* the last second of the week's last day exists *)
  (forall W', unit_hi 3 0 W < W' <= hi -> stays_in_day z W') ->     (* skipped wall times on the walked days are moved within their day *)
  exists f', dt_end_of we 4 v = Ok (hi, f') /\ dt_end_of we 4 (upd v (hi, f')) = Ok (hi, f').
Proof.
  intros Hk Hr Hws z W hi we H0 Hsx Hshi St.
  pose proof (proj1 (wall_in_range_iff _) Hr) as HW. fold W in HW.
  assert (Hwe : 0 <= we <= 6) by (unfold we; lia).
  set (k := W / us_per_day). set (j := (we - k) mod 7).
  assert (Ej6 : j = 6 - (k - ws) mod 7) by (unfold j, we; apply we_distance; exact Hws).
  assert (Ehi : hi = (k + j) * us_per_day + (us_per_day - 1)) by (unfold hi; rewrite unit_hi_4; fold k; rewrite Ej6, upd_val; lia).
  assert (Ex : unit_hi 3 0 W = k * us_per_day + (us_per_day - 1)) by (rewrite unit_hi_3; reflexivity).
  assert (Hj0 : 0 <= j <= 6) by (unfold j; lia).
  assert (Hkj : k + j <= 3652058) by (rewrite Ehi, upd_val in H0; lia).
  assert (Hk0 : 0 <= k) by (unfold k; rewrite upd_val; lia).
  assert (Rhi : wall_in_range hi = true) by (apply wall_in_range_iff; rewrite Ehi, upd_val in *; lia).
  assert (Dhi : hi / us_per_day * us_per_day + (us_per_day - 1) = hi) by (rewrite Ehi, upd_val; lia).
  assert (DOWhi : wall_dow hi = we) by (rewrite wall_dow_eq, Ehi; unfold j; rewrite upd_val; lia).
  assert (Idem : forall f', dt_end_of we 4 (upd v (hi, f')) = Ok (hi, f')).
  { intros f'. cbn [dt_end_of]. unfold dt_end_of_week. cbn [upd fst snd v_W]. rewrite DOWhi.
    replace (negb (we =? we)) with false by lia.
    rewrite (end_of_day_dst (upd v (hi, f')) Hk); cbn [upd fst snd v_W v_zone v_fold]; [rewrite Dhi; reflexivity|exact Rhi|rewrite Dhi; exact Hshi]. }
  cbn [dt_end_of]. unfold dt_end_of_week. fold W. rewrite wall_dow_eq. fold k.
  destruct (negb (k mod 7 =? we)) eqn:E.
  - assert (Hj1 : 1 <= j) by (unfold j; lia).
    unfold dt_next.
    rewrite (start_of_day_dst v Hk Hr); [|fold W; rewrite <- unit_lo_3 with (ws := 0); exact Hsx].
    cbn [bind]. fold W. fold k.
    set (v1 := upd v (k * us_per_day, v_fold v)).
    assert (R1 : wall_in_range (v_W v1) = true) by (apply wall_in_range_iff; cbn; rewrite upd_val in *; lia).
    assert (R2 : wall_in_range (v_W v1 + 1 * us_per_day) = true)
      by (apply wall_in_range_iff; cbn [v1 upd fst v_W]; rewrite upd_val in *; lia).
    assert (S2 : stays_in_day (v_zone v1) (v_W v1 + 1 * us_per_day))
      by (apply St; cbn [v1 upd fst v_W]; rewrite Ehi, Ex, upd_val in *; lia).
    destruct (step_day_dst v1 1 Hk R1 ltac:(lia) R2 S2) as [W2 [f2 [S [RW2 [D2 _]]]]].
    rewrite S. cbn [bind].
    assert (D1 : v_W v1 / us_per_day = k) by (cbn [v1 upd fst v_W]; apply day_mul_div).
    rewrite D1 in D2.
    assert (Ej : (we - (k + 1)) mod 7 = j - 1) by (replace (we - (k + 1)) with (we - k - 1) by ring; apply mod7_step_fwd; exact Hj1).
    pose proof (walk_fwd_dst WALK_FUEL (upd v1 (W2, f2)) we Hk RW2 Hwe) as WB. cbv zeta in WB.
    cbn [upd fst snd v_W v_zone v_kind v_fold v1] in WB. rewrite D2, Ej in WB.
    destruct WB as [W3 [f3 [Hw [R3 D3]]]].
    + unfold WALK_FUEL. lia.
    + lia.
    + intros W'' HW''. apply St. rewrite Ehi, Ex. rewrite upd_val in *. lia.
    + cbn [upd fst snd v_W v_zone v_kind v_fold v1]. rewrite Hw. cbn [bind].
      assert (E3 : W3 / us_per_day * us_per_day + (us_per_day - 1) = hi) by (rewrite Ehi, D3; f_equal; f_equal; lia).
      rewrite (end_of_day_dst (mkdtv (v_zone v) (v_kind v) W3 f3) Hk); cbn [v_W v_zone v_fold]; [|exact R3|rewrite E3; exact Hshi].
      rewrite E3. exists f3. split; [reflexivity|apply Idem].
  - assert (Hj00 : j = 0) by (unfold j; lia).
    rewrite (end_of_day_dst v Hk Hr); [|fold W; fold k; replace (k * us_per_day + (us_per_day - 1)) with hi by (rewrite Ehi; f_equal; f_equal; lia); exact Hshi].
    fold W. fold k. replace (k * us_per_day + (us_per_day - 1)) with hi by (rewrite Ehi; f_equal; f_equal; lia).
    exists (v_fold v). split; [reflexivity|apply Idem].
Qed.

(* ---------- Asia/Tehran, March 2018: DST begins at local midnight of Thursday 2018-03-22 (00:00 +03:30 -> 01:00 +04:30) ---------- *)
Definition tehran_2018 : zone := mkzone 12600 [(63657261000, 16200)].
(* Saturday 2018-03-24 12:00:00 +04:30; the default week (Monday..Sunday) began on Monday 2018-03-19 *)
Definition tehran_sat (f : bool) : dtv := mkdtv tehran_2018 2 63657489600000000 f.

Lemma tehran_facts :
  wf2_zone tehran_2018 = true /\
  wall_skipped tehran_2018 (sec 63657273600000000) /\                      (* 2018-03-22 00:00:00 does not exist *)
  unit_lo 4 0 63657489600000000 = 63657014400000000 /\                      (* 2018-03-19 00:00:00 *)
  (* previous(MONDAY) alone arrives at 2018-03-19 01:00:00: the walk carries the hour by which Thursday's midnight was moved *)
  (forall f, dt_previous (tehran_sat f) 0 = Ok (mkdtv tehran_2018 2 63657018000000000 true)) /\
  (* the trailing start_of('day') brings the result back to the first microsecond of the week *)
  (forall f, dt_start_of 0 4 (tehran_sat f) = Ok (63657014400000000, true)) /\
  unit_id 4 0 (fst (render tehran_2018 (inst tehran_2018 63657014400000000 true - 1))) <> unit_id 4 0 63657489600000000 /\
  unit_id 4 0 (fst (render tehran_2018 (inst tehran_2018 63657018000000000 true - 1))) = unit_id 4 0 63657489600000000.
Proof.
  split; [vm_compute; reflexivity|]. split; [vm_compute; reflexivity|]. split; [vm_compute; reflexivity|].
  split; [intros [|]; vm_compute; reflexivity|]. split; [intros [|]; vm_compute; reflexivity|].
  split; vm_compute; [discriminate|reflexivity].
Qed.

(* the hypotheses of start_week_dst hold for that value although a midnight strictly inside the walk is skipped *)
Lemma tehran_gap_shift w : gap_shift tehran_2018 w = if (63657273600 <=? w) && (w <? 63657277200) then 3600 else 0.
Proof.
  unfold gap_shift, off_local, tehran_2018. cbn [z_init z_trans off_local_l wallb].
  change (63657261000 + Z.min 12600 16200) with 63657273600. change (63657261000 + Z.max 12600 16200) with 63657277200.
  destruct (w <? 63657273600) eqn:A; destruct (w <? 63657277200) eqn:B; try lia;
    destruct (63657273600 <=? w) eqn:C; try lia; reflexivity.
Qed.

Example start_week_dst_satisfiable : forall f,
  let v := tehran_sat f in let lo := unit_lo 4 0 (v_W v) in
  v_kind v = 2 /\ wall_in_range (v_W v) = true /\ 0 <= lo /\
  ~ wall_skipped (v_zone v) (sec (unit_lo 3 0 (v_W v))) /\ ~ wall_skipped (v_zone v) (sec lo) /\
  (forall W', lo <= W' < unit_lo 3 0 (v_W v) -> stays_in_day (v_zone v) W') /\
  (exists W', lo <= W' < unit_lo 3 0 (v_W v) /\ wall_skipped (v_zone v) (sec W')).
Proof.
  intros f v lo.
  assert (Elo : lo = 63657014400000000) by (vm_compute; reflexivity).
  assert (E3 : unit_lo 3 0 (v_W v) = 63657446400000000) by (vm_compute; reflexivity).
  split; [reflexivity|]. split; [reflexivity|]. split; [rewrite Elo; lia|].
  split; [rewrite E3; intros H; vm_compute in H; discriminate|]. split; [rewrite Elo; intros H; vm_compute in H; discriminate|]. split.
  - intros W' HW'. rewrite Elo, E3 in HW'. unfold stays_in_day, sec, MEG. cbn [v v_zone tehran_sat].
    rewrite tehran_gap_shift, upd_val.
    destruct ((63657273600 <=? W' / 1000000) && (W' / 1000000 <? 63657277200)) eqn:A; lia.
  - exists 63657273600000000. rewrite Elo, E3. split; [lia|]. vm_compute. reflexivity.
Qed.

(* Tuesday 2018-03-20 12:00:00 +03:30: the forward walk of next(SUNDAY) passes Thursday's skipped midnight *)
Definition tehran_tue (f : bool) : dtv := mkdtv tehran_2018 2 63657144000000000 f.
Lemma tehran_end_facts :
  unit_hi 4 0 63657144000000000 = 63657619199999999 /\                      (* Sunday 2018-03-25 23:59:59.999999 *)
  (forall f, dt_next (tehran_tue f) 6 = Ok (mkdtv tehran_2018 2 63657536400000000 true)) /\     (* next(SUNDAY) alone: Sunday 01:00 *)
  (forall f, dt_end_of 6 4 (tehran_tue f) = Ok (63657619199999999, true)).
Proof. split; [vm_compute; reflexivity|]. split; intros [|]; vm_compute; reflexivity. Qed.

Example end_week_dst_satisfiable : forall f,
  let v := tehran_tue f in let hi := unit_hi 4 0 (v_W v) in
  v_kind v = 2 /\ wall_in_range (v_W v) = true /\ hi <= 315537897599999999 /\
  ~ wall_skipped (v_zone v) (sec (unit_lo 3 0 (v_W v))) /\ ~ wall_skipped (v_zone v) (sec hi) /\
  (forall W', unit_hi 3 0 (v_W v) < W' <= hi -> stays_in_day (v_zone v) W') /\
  (exists W', unit_hi 3 0 (v_W v) < W' <= hi /\ wall_skipped (v_zone v) (sec W')).
Proof.
  intros f v hi.
  assert (Ehi : hi = 63657619199999999) by (vm_compute; reflexivity).
  assert (E3 : unit_hi 3 0 (v_W v) = 63657187199999999) by (vm_compute; reflexivity).
  assert (E0 : unit_lo 3 0 (v_W v) = 63657100800000000) by (vm_compute; reflexivity).
  split; [reflexivity|]. split; [reflexivity|]. split; [rewrite Ehi; lia|].
  split; [rewrite E0; intros H; vm_compute in H; discriminate|]. split; [rewrite Ehi; intros H; vm_compute in H; discriminate|]. split.
  - intros W' HW'. rewrite Ehi, E3 in HW'. unfold stays_in_day, sec, MEG. cbn [v v_zone tehran_tue].
    rewrite tehran_gap_shift, upd_val.
    destruct ((63657273600 <=? W' / 1000000) && (W' / 1000000 <? 63657277200)) eqn:A; lia.
  - exists 63657273600000000. rewrite Ehi, E3. split; [lia|]. vm_compute. reflexivity.
Qed.
