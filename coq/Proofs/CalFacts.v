(* Proofs/CalFacts.v — facts about Spec/Cal.v valid for every year (no bound). *)
From Coq Require Import ZArith List Bool Lia ZifyBool.
From PV Require Import Lib.Reflect Spec.Cal.
Ltac Zify.zify_post_hook ::= Z.to_euclidean_division_equations.
Open Scope Z_scope.

Lemma is_leap_shift y q : is_leap (y + 400 * q) = is_leap y.
Proof. unfold is_leap. lia. Qed.

Lemma days_before_year_shift y q : days_before_year (y + 400 * q) = days_before_year y + 146097 * q.
Proof. unfold days_before_year. lia. Qed.

Lemma dim_shift y q m : dim (y + 400 * q) m = dim y m.
Proof. unfold dim. now rewrite is_leap_shift. Qed.

Lemma ymd2ord_shift y q m d : ymd2ord (y + 400 * q) m d = ymd2ord y m d + 146097 * q.
Proof. unfold ymd2ord, days_before_month. rewrite is_leap_shift, days_before_year_shift. lia. Qed.

Lemma valid_dateb_shift y q m d : valid_dateb (y + 400 * q) m d = valid_dateb y m d.
Proof. unfold valid_dateb. now rewrite dim_shift. Qed.

(* --- month tables, by reflection over the leap flag and the month --- *)
Definition month_step_ok (l : bool) (m : Z) : bool :=
  (dbm_l l (m + 1) =? dbm_l l m + dim_l l m) && (28 <=? dim_l l m) && (dim_l l m <=? 31).
Lemma month_step_f : forall_range (month_step_ok false) 1 11 = true. Proof. vm_compute. reflexivity. Qed.
Lemma month_step_t : forall_range (month_step_ok true) 1 11 = true. Proof. vm_compute. reflexivity. Qed.

Lemma dbm_step l m : 1 <= m <= 11 -> dbm_l l (m + 1) = dbm_l l m + dim_l l m.
Proof.
  intros Hm.
  destruct l; [ pose proof (forall_range_spec _ _ _ month_step_t m Hm) as E | pose proof (forall_range_spec _ _ _ month_step_f m Hm) as E ];
  unfold month_step_ok in E; lia.
Qed.

Lemma dim_l_bounds l m : 28 <= dim_l l m <= 31.
Proof. unfold dim_l. destruct (m =? 2); [destruct l; lia|]. destruct ((m =? 4) || (m =? 6) || (m =? 9) || (m =? 11)); lia. Qed.

Lemma dim_bounds y m : 28 <= dim y m <= 31.
Proof. apply dim_l_bounds. Qed.

Lemma dbm_1 l : dbm_l l 1 = 0. Proof. destruct l; reflexivity. Qed.
Lemma dbm_12 l : dbm_l l 12 + dim_l l 12 = if l then 366 else 365. Proof. destruct l; reflexivity. Qed.

(* dbm is monotone with at least one month length between distinct months *)
Lemma dbm_mono l m1 : forall m2, 1 <= m1 -> m1 < m2 <= 12 -> dbm_l l m1 + dim_l l m1 <= dbm_l l m2.
Proof.
  intros m2 H1 H2.
  assert (G : forall k : nat, (Z.of_nat k + m1 + 1 <= 12) -> dbm_l l m1 + dim_l l m1 <= dbm_l l (m1 + 1 + Z.of_nat k)).
  { induction k as [|k IH]; intros Hk.
    - rewrite Z.add_0_r. rewrite dbm_step by lia. lia.
    - replace (m1 + 1 + Z.of_nat (S k)) with ((m1 + 1 + Z.of_nat k) + 1) by lia.
      rewrite dbm_step by lia. pose proof (dim_l_bounds l (m1 + 1 + Z.of_nat k)). 
      assert (dbm_l l m1 + dim_l l m1 <= dbm_l l (m1 + 1 + Z.of_nat k)) by (apply IH; lia). lia. }
  specialize (G (Z.to_nat (m2 - m1 - 1))). rewrite Z2Nat.id in G by lia.
  replace (m1 + 1 + (m2 - m1 - 1)) with m2 in G by lia. apply G. lia.
Qed.

Lemma dbm_nonneg l m : 1 <= m <= 12 -> 0 <= dbm_l l m.
Proof.
  intros H. destruct (Z.eq_dec m 1) as [->|Hne]; [rewrite dbm_1; lia|].
  pose proof (dbm_mono l 1 m ltac:(lia) ltac:(lia)). rewrite dbm_1 in H0. pose proof (dim_l_bounds l 1). lia.
Qed.

Lemma dbm_upper l m : 1 <= m <= 12 -> dbm_l l m + dim_l l m <= (if l then 366 else 365).
Proof.
  intros H. destruct (Z.eq_dec m 12) as [->|Hne]; [rewrite dbm_12; lia|].
  pose proof (dbm_mono l m 12 ltac:(lia) ltac:(lia)). pose proof (dbm_12 l). pose proof (dim_l_bounds l 12). lia.
Qed.

Lemma days_before_year_succ y : days_before_year (y + 1) = days_before_year y + days_in_year y.
Proof. unfold days_before_year, days_in_year, is_leap. destruct ((y mod 4 =? 0) && (negb (y mod 100 =? 0) || (y mod 400 =? 0))) eqn:E; lia. Qed.

Lemma days_before_year_mono a b : a <= b -> days_before_year a <= days_before_year b.
Proof. unfold days_before_year. lia. Qed.

Lemma valid_dateb_true y m d : valid_dateb y m d = true <-> (1 <= m <= 12 /\ 1 <= d <= dim y m).
Proof. unfold valid_dateb. lia. Qed.

Lemma yday_bounds y m d : valid_dateb y m d = true ->
  1 <= days_before_month y m + d <= days_in_year y.
Proof.
  rewrite valid_dateb_true. intros [Hm Hd]. unfold days_before_month, days_in_year, dim in *.
  pose proof (dbm_nonneg (is_leap y) m Hm). pose proof (dbm_upper (is_leap y) m Hm).
  destruct (is_leap y); lia.
Qed.

(* strict monotonicity of ymd2ord in the lexicographic order on valid dates, every year *)
Theorem ymd2ord_lt y1 m1 d1 y2 m2 d2 :
  valid_dateb y1 m1 d1 = true -> valid_dateb y2 m2 d2 = true ->
  (y1 < y2 \/ (y1 = y2 /\ (m1 < m2 \/ (m1 = m2 /\ d1 < d2)))) ->
  ymd2ord y1 m1 d1 < ymd2ord y2 m2 d2.
Proof.
  intros V1 V2 H. pose proof (yday_bounds _ _ _ V1) as B1. pose proof (yday_bounds _ _ _ V2) as B2.
  unfold ymd2ord. destruct H as [H|[-> H]].
  - pose proof (days_before_year_succ y1). pose proof (days_before_year_mono (y1 + 1) y2 ltac:(lia)). lia.
  - destruct H as [H|[-> H]]; [|lia].
    apply valid_dateb_true in V1, V2. unfold days_before_month, dim in *.
    pose proof (dbm_mono (is_leap y2) m1 m2 ltac:(lia) ltac:(lia)). lia.
Qed.

Theorem ymd2ord_inj y1 m1 d1 y2 m2 d2 :
  valid_dateb y1 m1 d1 = true -> valid_dateb y2 m2 d2 = true ->
  ymd2ord y1 m1 d1 = ymd2ord y2 m2 d2 -> (y1, m1, d1) = (y2, m2, d2).
Proof.
  intros V1 V2 E.
  destruct (Z_lt_ge_dec y1 y2); [pose proof (ymd2ord_lt _ _ _ _ _ _ V1 V2 ltac:(lia)); lia|].
  destruct (Z_lt_ge_dec y2 y1); [pose proof (ymd2ord_lt _ _ _ _ _ _ V2 V1 ltac:(lia)); lia|].
  assert (y1 = y2) by lia; subst.
  destruct (Z_lt_ge_dec m1 m2); [pose proof (ymd2ord_lt _ _ _ _ _ _ V1 V2 ltac:(lia)); lia|].
  destruct (Z_lt_ge_dec m2 m1); [pose proof (ymd2ord_lt _ _ _ _ _ _ V2 V1 ltac:(lia)); lia|].
  assert (m1 = m2) by lia; subst.
  unfold ymd2ord in E. f_equal. lia.
Qed.

(* --- the inverse, by reflection over one 400-year cycle and lifting --- *)
Definition cycle_ok (r : Z) : bool :=
  let '(y, m, d) := ord2ymd_cycle r in
  valid_dateb y m d && (ymd2ord y m d =? r + 1) && (1 <=? y) && (y <=? 400).

Lemma cycle_all : forall_range cycle_ok 0 146096 = true.
Proof. vm_compute. reflexivity. Qed.

Theorem ord2ymd_spec n :
  let '(y, m, d) := ord2ymd n in valid_dateb y m d = true /\ ymd2ord y m d = n.
Proof.
  unfold ord2ymd.
  assert (Hr : 0 <= (n - 1) mod 146097 <= 146096) by lia.
  pose proof (forall_range_spec _ _ _ cycle_all _ Hr) as H. unfold cycle_ok in H.
  destruct (ord2ymd_cycle ((n - 1) mod 146097)) as [[y m] d].
  apply andb_true_iff in H; destruct H as [H Hy2]. apply andb_true_iff in H; destruct H as [H Hy1].
  apply andb_true_iff in H; destruct H as [Hv He].
  replace (400 * ((n - 1) / 146097) + y) with (y + 400 * ((n - 1) / 146097)) by lia.
  rewrite valid_dateb_shift, ymd2ord_shift. split; [assumption|lia].
Qed.

Theorem ord2ymd_ymd2ord y m d : valid_dateb y m d = true -> ord2ymd (ymd2ord y m d) = (y, m, d).
Proof.
  intros V. pose proof (ord2ymd_spec (ymd2ord y m d)) as H.
  destruct (ord2ymd (ymd2ord y m d)) as [[y' m'] d']. destruct H as [V' E].
  exact (ymd2ord_inj _ _ _ _ _ _ V' V E).
Qed.

Theorem ymd2ord_ord2ymd n : let '(y, m, d) := ord2ymd n in ymd2ord y m d = n.
Proof. pose proof (ord2ymd_spec n). destruct (ord2ymd n) as [[y m] d]. tauto. Qed.

Lemma ord2ymd_year_pos n : 1 <= n -> let '(y, m, d) := ord2ymd n in 1 <= y.
Proof.
  intros Hn. unfold ord2ymd.
  assert (Hr : 0 <= (n - 1) mod 146097 <= 146096) by lia.
  pose proof (forall_range_spec _ _ _ cycle_all _ Hr) as H. unfold cycle_ok in H.
  destruct (ord2ymd_cycle ((n - 1) mod 146097)) as [[y m] d].
  apply andb_true_iff in H; destruct H as [H Hy2]. apply andb_true_iff in H; destruct H as [H Hy1]. lia.
Qed.

(* weekday facts *)
Lemma iso_weekday_range n : 1 <= iso_weekday n <= 7.
Proof. unfold iso_weekday. lia. Qed.
Lemma iso_weekday_succ n : iso_weekday (n + 1) = iso_weekday n mod 7 + 1.
Proof. unfold iso_weekday. lia. Qed.
Lemma iso_weekday_period n k : iso_weekday (n + 7 * k) = iso_weekday n.
Proof. unfold iso_weekday. lia. Qed.

(* range of representable wall values, with the constants evaluated once (unfolding max_wall inside lia goals makes Qed very slow) *)
Lemma max_wall_val : max_wall = 315537897599999999. Proof. vm_compute. reflexivity. Qed.
Lemma wall_in_range_iff W : wall_in_range W = true <-> 0 <= W <= 315537897599999999.
Proof. unfold wall_in_range. rewrite max_wall_val. lia. Qed.
Lemma wall_in_range_false_iff W : wall_in_range W = false <-> (W < 0 \/ 315537897599999999 < W).
Proof. unfold wall_in_range. rewrite max_wall_val. lia. Qed.
