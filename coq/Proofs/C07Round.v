(* Proofs/C07Round.v — end-to-end: the compiled parser inverts the extended calendar form
   YYYY-MM-DD(T| )HH:MM:SS[.ffffff](+|-)HH:MM  (what isoformat()/str()/to_iso8601_string()/to_rfc3339_string() emit). *)
From Coq Require Import ZArith List Bool Lia ZifyBool.
From PV Require Import Lib.Reflect Lib.PyBase Spec.Cal Proofs.CalFacts Model.RustHelpers Model.C07Regex Model.IsoParse Model.IsoRender Proofs.C07Lex.
From Coq Require Import String Ascii.
Import ListNotations.
Ltac Zify.zify_post_hook ::= Z.to_euclidean_division_equations.
Open Scope Z_scope.

Lemma dg_ne a c : 0 <= a <= 9 -> (c < 48 \/ 57 < c) -> (dg a =? c) = false.
Proof. unfold dg. lia. Qed.

Lemma parse2 a b rest : 0 <= a <= 9 -> 0 <= b <= 9 -> rs_parse_int 2 (dg a :: dg b :: rest) 0 = Some (10 * a + b, rest).
Proof.
  intros Ha Hb. cbn [rs_parse_int]. rewrite !is_digit_dg by assumption. unfold dg. f_equal. f_equal. lia.
Qed.

Ltac unf_ch := unfold ch_T, ch_sp, ch_dash, ch_plus, ch_colon, ch_W, ch_Z, ch_dot, ch_comma, ch_slash, ch_P in *.
Ltac red1 := cbn [cur isend inc tl negb andb orb fst snd Z.eqb Pos.eqb
                  r_year r_month r_day r_hour r_minute r_second r_us r_offset r_has_date r_has_time r_ext].
Ltac run := repeat (first [ rewrite parse2 by lia | rewrite dg_ne by lia | progress red1 ]).

(* the date part YYYY-MM-DD followed by anything that starts with T or a space *)
Lemma rs_date_ext m1 m2 d1 d2 sep rest year :
  0 <= m1 <= 9 -> 0 <= m2 <= 9 -> 0 <= d1 <= 9 -> 0 <= d2 <= 9 ->
  rs_parse_date year (45 :: dg m1 :: dg m2 :: 45 :: dg d1 :: dg d2 :: sep :: rest) =
  Some (set_ymd rdt0 (year, 10 * m1 + m2, 10 * d1 + d2) true, sep :: rest).
Proof.
  intros. unfold rs_parse_date, date_end. unf_ch. run. reflexivity.
Qed.

(* the time part (T| )HH:MM:SS followed by an optional fraction and an offset; extended date format *)
Lemma rs_time_ext dt sep h1 h2 i1 i2 s1 s2 tail :
  r_ext dt = true -> sep = 84 \/ sep = 32 ->
  0 <= h1 <= 9 -> 0 <= h2 <= 9 -> 0 <= i1 <= 9 -> 0 <= i2 <= 9 -> 0 <= s1 <= 9 -> 0 <= s2 <= 9 ->
  rs_parse_time dt false (sep :: dg h1 :: dg h2 :: 58 :: dg i1 :: dg i2 :: 58 :: dg s1 :: dg s2 :: tail) =
  match rs_opt_fraction tail (r_us dt) with
  | None => None
  | Some (us, s6) =>
    match rs_offset s6 with
    | None => None
    | Some (off, s8) =>
      Some (mkr (r_year dt) (r_month dt) (r_day dt) (10 * h1 + h2) (10 * i1 + i2) (10 * s1 + s2) us off (r_has_date dt) true true, s8)
    end
  end.
Proof.
  intros He Hsep. intros. unfold rs_parse_time, not_tzstart. unf_ch.
  destruct Hsep as [-> | ->]; run; rewrite He; run; (destruct (rs_opt_fraction tail (r_us dt)) as [[? ?]|]; reflexivity).
Qed.

Lemma rs_no_fraction sg r us0 : sg = 43 \/ sg = 45 -> rs_opt_fraction (sg :: r) us0 = Some (us0, sg :: r).
Proof. intros [-> | ->]; reflexivity. Qed.

Lemma rs_fraction6 us sg r us0 : 0 <= us < 1000000 -> sg = 43 \/ sg = 45 ->
  rs_opt_fraction (46 :: render6 us ++ sg :: r) us0 = Some (us, sg :: r).
Proof.
  intros Hus Hsg. unfold rs_opt_fraction. unf_ch. red1.
  destruct (int_of_render6 us Hus) as [V D].
  rewrite rs_fraction_trunc; [| cbn; lia | exact D | destruct Hsg as [-> | ->]; reflexivity].
  f_equal. f_equal. unfold frac_us. change (firstn 6 (render6 us)) with (render6 us). rewrite V. cbn. lia.
Qed.

Lemma rs_offset_render off : -86400 < off < 86400 -> off mod 60 = 0 ->
  rs_offset (render_offset off) = Some (Some off, []).
Proof.
  intros Hr Hm. pose (a := Z.abs off / 60).
  assert (Ha : 0 <= a <= 1439) by (unfold a; lia).
  pose proof (offset_value 0 (if off <? 0 then 1 else 0) (a / 60) (a mod 60) ltac:(lia) ltac:(destruct (off <? 0); lia) ltac:(lia) ltac:(lia)) as [_ E].
  unfold render_offset. fold a.
  replace ((if off <? 0 then 45 else 43) :: render2 (a / 60) ++ [58] ++ render2 (a mod 60))
    with (off_text 0 (if off <? 0 then 1 else 0) (a / 60) (a mod 60)) by (unfold off_text; destruct (off <? 0); reflexivity).
  rewrite E. f_equal. f_equal. f_equal. unfold off_val. cbn [Z.eqb]. unfold a. destruct (off <? 0) eqn:C; cbn [Z.eqb]; lia.
Qed.

Lemma render_offset_head off : exists sg r, render_offset off = sg :: r /\ (sg = 43 \/ sg = 45).
Proof. unfold render_offset. destruct (off <? 0); eexists _, _; split; try reflexivity; lia. Qed.

Lemma d10 n : 0 <= n < 100 -> 0 <= n / 10 <= 9 /\ 0 <= n mod 10 <= 9 /\ 10 * (n / 10) + n mod 10 = n.
Proof. lia. Qed.

(* ---- the compiled descent on the rendered text *)
Theorem rs_parse_datetime_render sep y m d H M S us off :
  sep = 84 \/ sep = 32 -> 0 <= y <= 9999 -> 0 <= m < 100 -> 0 <= d < 100 -> 0 <= H < 100 -> 0 <= M < 100 -> 0 <= S < 100 ->
  0 <= us < 1000000 -> -86400 < off < 86400 -> off mod 60 = 0 ->
  rs_parse_datetime (render_datetime_ext sep y m d H M S us off) = Some (mkr y m d H M S us (Some off) true true true).
Proof.
  intros Hsep Hy Hm Hd HH HM HS Hus Ho Ho60.
  unfold render_datetime_ext, render_date, render_time_ext, render4, render2. cbn [Z.eqb app].
  destruct (d10 (y / 100) ltac:(lia)) as (A1 & A2 & A3). destruct (d10 (y mod 100) ltac:(lia)) as (B1 & B2 & B3).
  destruct (d10 m Hm) as (C1 & C2 & C3). destruct (d10 d Hd) as (D1 & D2 & D3).
  destruct (d10 H HH) as (E1 & E2 & E3). destruct (d10 M HM) as (F1 & F2 & F3). destruct (d10 S HS) as (G1 & G2 & G3).
  unfold rs_parse_datetime. unf_ch.
  assert (Hs : (sep =? 84) = true \/ sep = 32) by lia.
  run.
  rewrite rs_date_ext by assumption. red1.
  rewrite rs_time_ext by (try reflexivity; assumption).
  cbn [set_ymd rdt0 r_year r_month r_day r_us r_has_date].
  destruct (render_offset_head off) as (sg & r & Er & Hsg).
  assert (F : rs_opt_fraction ((if us =? 0 then [] else 46 :: render6 us) ++ render_offset off) 0 = Some (us, render_offset off)).
  { destruct (us =? 0) eqn:U.
    - cbn [app]. rewrite Er. rewrite rs_no_fraction by assumption. f_equal. f_equal. lia.
    - rewrite <- app_comm_cons. rewrite Er. apply rs_fraction6; assumption. }
  rewrite F. rewrite rs_offset_render by assumption. red1. f_equal. f_equal; lia.
Qed.

Lemma valid_date_bounds y m d : valid_date y m d = true -> 1 <= y <= 9999 /\ 1 <= m <= 12 /\ 1 <= d <= 31.
Proof.
  unfold valid_date, valid_dateb. intros H. pose proof (dim_l_bounds (is_leap y) m) as B. unfold dim in H.
  generalize dependent (dim_l (is_leap y) m). intros; lia.
Qed.
Lemma valid_time_bounds H M S us : valid_time H M S us = true -> 0 <= H < 24 /\ 0 <= M < 60 /\ 0 <= S < 60 /\ 0 <= us < 1000000.
Proof. unfold valid_time. lia. Qed.

(* through the pyo3 glue: the datetime.datetime that is built *)
Theorem rs_parse_iso_render sep y m d H M S us off :
  sep = 84 \/ sep = 32 -> valid_date y m d = true -> valid_time H M S us = true ->
  -86400 < off < 86400 -> off mod 60 = 0 ->
  rs_parse_iso (render_datetime_ext sep y m d H M S us off) = Ok (mkp 1 y m d H M S us (Some off)).
Proof.
  intros Hsep Vd Vt Ho Ho60. pose proof (valid_date_bounds _ _ _ Vd). pose proof (valid_time_bounds _ _ _ _ Vt).
  unfold rs_parse_iso. rewrite rs_parse_datetime_render by (try assumption; lia).
  cbn [r_has_date r_has_time r_year r_month r_day r_hour r_minute r_second r_us r_offset].
  unfold u8. rewrite !Z.mod_small by lia. unfold mk_datetime. rewrite Vd, Vt. reflexivity.
Qed.

(* through pendulum.parse (any exact / tz / now options): the offset in the text wins over the tz option *)
Theorem rs_parse_top_render exact tzopt now sep y m d H M S us off :
  sep = 84 \/ sep = 32 -> valid_date y m d = true -> valid_time H M S us = true ->
  -86400 < off < 86400 -> off mod 60 = 0 ->
  parse_top true exact tzopt now (render_datetime_ext sep y m d H M S us off) = Ok (mkp 1 y m d H M S us (Some off)).
Proof.
  intros. unfold parse_top, base_parse. rewrite rs_parse_iso_render by assumption.
  cbn [p_kind p_y p_m p_d p_H p_M p_S p_us p_off Z.eqb Pos.eqb]. unfold to_datetime.
  replace ((-86400 <? off) && (off <? 86400)) with true by lia. reflexivity.
Qed.

Example render_example :
  render_datetime_ext 84 2021 3 31 10 20 30 123456 19800 =
  map Z.of_nat (map Ascii.nat_of_ascii (String.list_ascii_of_string "2021-03-31T10:20:30.123456+05:30")).
Proof. vm_compute. reflexivity. Qed.

(* the pure-Python parser on the same text: checked here on concrete values only (the general statement needs a
   shape-invariance lemma for the backtracking matcher, not done) *)
Example py_parse_render_example :
  py_parse_iso (render_datetime_ext 84 2021 3 31 10 20 30 123456 19800) = Ok (mkp 1 2021 3 31 10 20 30 123456 (Some 19800)) /\
  py_parse_iso (render_datetime_ext 32 9999 12 31 23 59 59 0 (-86340)) = Ok (mkp 1 9999 12 31 23 59 59 0 (Some (-86340))).
Proof. vm_compute. split; reflexivity. Qed.

Lemma time_T_ext_witness :
  rs_parse_iso [84; 49; 50; 58; 50; 55; 58; 51; 56] = Raise E_ValueError /\
  py_parse_iso [84; 49; 50; 58; 50; 55; 58; 51; 56] = Ok (mkp 3 0 0 0 12 27 38 0 None).
Proof. vm_compute. split; reflexivity. Qed.

(* finding rs-bare-hhmmss-rejected (still open): a bare six-digit basic time is a time for the pure-Python parser, an error for the compiled one *)
Lemma time_bare_witness :
  rs_parse_iso [50; 51; 53; 57; 53; 57] = Raise E_ValueError /\
  py_parse_iso [50; 51; 53; 57; 53; 57] = Ok (mkp 3 0 0 0 23 59 59 0 None).
Proof. vm_compute. repeat split; reflexivity. Qed.

(* finding py-hhmmss-leading-zero repaired (hhmmss = f"{year:04d}{month:02d}"): bare hhmmss texts with an hour below 10 parse to that
   time with the pure-Python parser — end to end (regex match of the generated ISO8601_DT + post-match code) on the former failing inputs
   and on the corners of the range *)
(* the former witnesses: "012345" came back as 12:34:05, "001530" and "000000" raised *)
Lemma py_bare_hhmmss_witnesses :
  py_parse_iso [48; 49; 50; 51; 52; 53] = Ok (mkp 3 0 0 0 1 23 45 0 None) /\
  py_parse_iso [48; 48; 49; 53; 51; 48] = Ok (mkp 3 0 0 0 0 15 30 0 None) /\
  py_parse_iso [48; 48; 48; 48; 48; 48] = Ok (mkp 3 0 0 0 0 0 0 0 None) /\
  py_parse_iso [48; 57; 53; 57; 53; 57] = Ok (mkp 3 0 0 0 9 59 59 0 None) /\
  py_parse_iso [48; 48; 48; 48; 48; 49] = Ok (mkp 3 0 0 0 0 0 1 0 None) /\
  py_parse_iso [49; 48; 48; 48; 48; 48] = Ok (mkp 3 0 0 0 10 0 0 0 None).
Proof. vm_compute. repeat split; reflexivity. Qed.
