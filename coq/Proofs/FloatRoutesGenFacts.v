(* Proofs/FloatRoutesGenFacts.v — C03 / C01: the hand model of the FLOAT path of helpers.add_duration IS the code.
   Gen/FloatRoutesGen.gen_add_duration_float (translated from /repo on every run, every path statically typed) equals
   Model/FloatRoutes.add_duration_float (the carry chain over the int-or-float `pynum`, then td_of_mixed) for every datetime and every double.
   So the `pynum` layer of the hand model (num_abs_gt, num_sign, num_mul_int, num_divmod, num_add: Python's run-time dispatch on int / float)
   is not trusted: it is proved to compute what the statically typed translation computes.  No axioms. *)
From Coq Require Import ZArith List Bool Lia.
From Coq Require Import Floats.SpecFloat.
From PV Require Import Lib.PyBase Spec.Cal Spec.NativeDT Spec.TdFloat Gen.Constants Gen.Helpers Model.FloatRoutes Gen.FloatRoutesGen.
Import ListNotations.
Open Scope Z_scope.

Lemma gen_sign_float_eq : forall x, gen_sign_float x = Ok (if sf_sign x then -1 else 1).
Proof. intros x. unfold gen_sign_float. destruct (sf_sign x); reflexivity. Qed.

Lemma float_of_sign_b : forall b : bool, py_float_of_int (if b then -1 else 1) = Ok (sf_of_Z (if b then -1 else 1)).
Proof. intros [|]; reflexivity. Qed.

Lemma bind_ok_r {A} (r : result A) : bind r (fun x => Ok x) = r.
Proof. destruct r; reflexivity. Qed.

Ltac fstep :=
  first
  [ rewrite gen_sign_float_eq
  | rewrite float_of_sign_b
  | progress change (py_float_of_int 0) with (Ok (S754_zero false) : result sf)
  | progress cbn [bind fst snd Z.gtb Z.abs Z.compare]
  | match goal with
    | |- context [if flt ?a ?b then _ else _] => destruct (flt a b)
    | |- context [bind (py_float_divmod ?a ?b) _] => destruct (py_float_divmod a b) as [[? ?]|]
    end ].

Theorem gen_add_duration_float_eq : forall d x, gen_add_duration_float d x = add_duration_float d x.
Proof.
  intros d x. unfold gen_add_duration_float, add_duration_float, float_carry, carry_step, num_abs_gt, num_sign, num_mul_int, num_divmod, num_add. cbv zeta.
  rewrite Z.add_0_r. change (0 + 0 * 7) with 0. change (sf_of_Z 0) with (S754_zero false).
  repeat fstep; rewrite ?bind_ok_r; try reflexivity.
  all: try (destruct (ndt_replace_ymd _ _ _ _); [|reflexivity]; cbn [bind]; destruct (td_of_mixed _ _ _ _); [|reflexivity]; cbn [bind]; apply bind_ok_r).
Qed.

Print Assumptions gen_add_duration_float_eq.
