(* Proofs/C07RsForms.v — the COMPILED parser (hand model rs_* of Model/IsoParse.v) on every well-formed text of the forms of
   Model/IsoForms.v, by symbolic descent (extends Proofs/C07Round.v: the five remaining date forms, the basic time form, fractions of
   any length after . or , and every offset style), the time-only texts, and the agreement of the two backends (with Proofs/C07PyForms.v). *)
From Coq Require Import ZArith List Bool Lia ZifyBool.
From PV Require Import Lib.Reflect Lib.PyBase Spec.Cal Proofs.CalFacts Model.RustHelpers Model.C07Regex Model.IsoParse Model.IsoRender Model.IsoForms.
From PV Require Import Proofs.C15Facts Proofs.C07Lex Proofs.C07Cal Proofs.C07Week Proofs.C07Round Proofs.C07PyRound Proofs.C07PyForms.
Import ListNotations.
Ltac Zify.zify_post_hook ::= Z.to_euclidean_division_equations.
Open Scope Z_scope.

Lemma parse1 a rest : 0 <= a <= 9 -> rs_parse_int 1 (dg a :: rest) 0 = Some (a, rest).
Proof. intros Ha. cbn [rs_parse_int]. rewrite is_digit_dg by assumption. unfold dg. f_equal. f_equal. lia. Qed.

Ltac run' := repeat (first [ rewrite parse2 by lia | rewrite parse1 by lia | rewrite dg_ne by lia | progress red1 ]).

(* ---- the date part after the four-digit year, the five remaining forms (calendar extended is rs_date_ext) *)
Lemma rs_date_bas m1 m2 d1 d2 sep rest year :
  0 <= m1 <= 9 -> 0 <= m2 <= 9 -> 0 <= d1 <= 9 -> 0 <= d2 <= 9 ->
  rs_parse_date year (dg m1 :: dg m2 :: dg d1 :: dg d2 :: sep :: rest) =
  Some (set_ymd rdt0 (year, 10 * m1 + m2, d1 * 10 + d2) false, sep :: rest).
Proof. intros. unfold rs_parse_date, date_end. unf_ch. run'. reflexivity. Qed.

Lemma rs_date_ord_ext n1 n2 n3 sep rest year :
  0 <= n1 <= 9 -> 0 <= n2 <= 9 -> 0 <= n3 <= 9 ->
  rs_parse_date year (45 :: dg n1 :: dg n2 :: dg n3 :: sep :: rest) =
  match rs_ordinal_to_ymd year ((10 * n1 + n2) * 10 + n3) false with
  | None => None | Some ymd => Some (set_ymd rdt0 ymd true, sep :: rest) end.
Proof. intros. unfold rs_parse_date, date_end. unf_ch. run'. reflexivity. Qed.

Lemma rs_date_ord_bas n1 n2 n3 sep rest year :
  0 <= n1 <= 9 -> 0 <= n2 <= 9 -> 0 <= n3 <= 9 -> sep = 84 \/ sep = 32 ->
  rs_parse_date year (dg n1 :: dg n2 :: dg n3 :: sep :: rest) =
  match rs_ordinal_to_ymd year (n3 + (10 * n1 + n2) * 10) false with
  | None => None | Some ymd => Some (set_ymd rdt0 ymd false, sep :: rest) end.
Proof. intros ? ? ? Hsep. unfold rs_parse_date, date_end. unf_ch. destruct Hsep as [-> | ->]; run'; reflexivity. Qed.

Lemma rs_date_week_ext w1 w2 wd sep rest year :
  0 <= w1 <= 9 -> 0 <= w2 <= 9 -> 0 <= wd <= 9 ->
  rs_parse_date year (45 :: 87 :: dg w1 :: dg w2 :: 45 :: dg wd :: sep :: rest) =
  match rs_iso_to_ymd year (10 * w1 + w2) wd with
  | None => None | Some ymd => Some (set_ymd rdt0 ymd true, sep :: rest) end.
Proof. intros. unfold rs_parse_date, date_end. unf_ch. run'. reflexivity. Qed.

Lemma rs_date_week_bas w1 w2 wd sep rest year :
  0 <= w1 <= 9 -> 0 <= w2 <= 9 -> 0 <= wd <= 9 ->
  rs_parse_date year (87 :: dg w1 :: dg w2 :: dg wd :: sep :: rest) =
  match rs_iso_to_ymd year (10 * w1 + w2) wd with
  | None => None | Some ymd => Some (set_ymd rdt0 ymd false, sep :: rest) end.
Proof. intros. unfold rs_parse_date, date_end. unf_ch. run'. reflexivity. Qed.

(* ---- the basic time part (T| )HHMMSS followed by an optional fraction and an offset; basic date format *)
Lemma rs_time_bas dt sep h1 h2 i1 i2 s1 s2 tail :
  r_ext dt = false -> sep = 84 \/ sep = 32 ->
  0 <= h1 <= 9 -> 0 <= h2 <= 9 -> 0 <= i1 <= 9 -> 0 <= i2 <= 9 -> 0 <= s1 <= 9 -> 0 <= s2 <= 9 ->
  rs_parse_time dt false (sep :: dg h1 :: dg h2 :: dg i1 :: dg i2 :: dg s1 :: dg s2 :: tail) =
  match rs_opt_fraction tail (r_us dt) with
  | None => None
  | Some (us, s6) =>
    match rs_offset s6 with
    | None => None
    | Some (off, s8) =>
      Some (mkr (r_year dt) (r_month dt) (r_day dt) (10 * h1 + h2) (10 * i1 + i2) (10 * s1 + s2) us off (r_has_date dt) true false, s8)
    end
  end.
Proof.
  intros He Hsep. intros. unfold rs_parse_time, not_tzstart. unf_ch.
  destruct Hsep as [-> | ->]; run'; rewrite He; run'; (destruct (rs_opt_fraction tail (r_us dt)) as [[? ?]|]; reflexivity).
Qed.

(* ---- fraction and offset *)
Lemma offs_text_head o : offs_ok o = true -> is_digit (cur (offs_text o)) = false /\ (cur (offs_text o) =? 46) = false /\ (cur (offs_text o) =? 44) = false.
Proof.
  destruct o as [| |style neg hh mm]; cbn [offs_text offs_ok]; intros H; try (repeat split; reflexivity).
  unfold hm_text. cbn [cur]. destruct (neg =? 0); repeat split; reflexivity.
Qed.

Lemma rs_tail f o : frac_ok f = true -> offs_ok o = true ->
  rs_opt_fraction (frac_text f ++ offs_text o) 0 = Some (frac_value f, offs_text o) /\
  rs_offset (offs_text o) = Some (offs_value o, []).
Proof.
  intros Hf Ho. destruct (offs_text_head o Ho) as (D & N1 & N2). split.
  - destruct f as [[fs ds]|]; cbn [frac_text frac_value app].
    + cbn [frac_ok] in Hf. apply andb_true_iff in Hf. destruct Hf as [Hf _]. apply andb_true_iff in Hf. destruct Hf as [Hf H3].
      apply andb_true_iff in Hf. destruct Hf as [H1 H2]. apply Nat.leb_le in H3.
      unfold rs_opt_fraction. unf_ch. cbn [cur inc tl]. rewrite H1.
      rewrite rs_fraction_trunc by assumption. reflexivity.
    + unfold rs_opt_fraction. unf_ch. rewrite N1, N2. reflexivity.
  - destruct o as [| |style neg hh mm]; cbn [offs_text offs_value offs_ok] in *; try reflexivity.
    exact (proj2 (offset_value style neg hh mm ltac:(lia) ltac:(lia) ltac:(lia) ltac:(lia))).
Qed.

Lemma d100 n : 0 <= n < 1000 -> 0 <= n / 100 <= 9 /\ 0 <= (n / 10) mod 10 <= 9 /\ 0 <= n mod 10 <= 9 /\
  (10 * (n / 100) + (n / 10) mod 10) * 10 + n mod 10 = n.
Proof. lia. Qed.

Theorem rs_parse_datetime_forms form sep y m d H M S f o :
  0 <= form <= 5 -> sep = 84 \/ sep = 32 -> valid_date y m d = true -> valid_time H M S 0 = true ->
  frac_ok f = true -> offs_ok o = true -> (4 <= form -> 1 <= iso_year_of y m d <= 9999) ->
  rs_parse_datetime (iso_datetime form sep y m d H M S f o) =
  Some (mkr y m d H M S (frac_value f) (offs_value o) true true (form_ext form)).
Proof.
  intros Hform Hsep Vd Vt Hf Ho Hiy. pose proof (valid_date_bounds _ _ _ Vd) as Bd. pose proof (valid_time_bounds _ _ _ _ Vt) as Bt.
  assert (Vb : valid_dateb y m d = true) by (unfold valid_date in Vd; apply andb_true_iff in Vd; tauto).
  destruct (yday_date y m d Vb) as [By Ey]. pose proof (diy_cases y) as Dy. set (n := yday y m d) in *.
  pose proof (isocalendar_inverse y m d Vb) as I. pose proof (ord2ymd_ymd2ord y m d Vb) as O.
  destruct (rs_tail f o Hf Ho) as [TF TO].
  destruct (d10 (y / 100) ltac:(lia)) as (A1 & A2 & A3). destruct (d10 (y mod 100) ltac:(lia)) as (B1 & B2 & B3).
  destruct (d10 m ltac:(lia)) as (C1 & C2 & C3). destruct (d10 d ltac:(lia)) as (D1 & D2 & D3).
  destruct (d10 H ltac:(lia)) as (E1 & E2 & E3). destruct (d10 M ltac:(lia)) as (F1 & F2 & F3). destruct (d10 S ltac:(lia)) as (G1 & G2 & G3).
  destruct (d100 n ltac:(lia)) as (N1 & N2 & N3 & N4).
  assert (F : form = 0 \/ form = 1 \/ form = 2 \/ form = 3 \/ form = 4 \/ form = 5) by lia.
  unfold iso_datetime, render_date. fold n. unfold iso_year_of in Hiy.
  destruct F as [-> | [-> | [-> | [-> | F]]]]; cbn [Z.eqb Pos.eqb form_ext Z.even];
    [ | | | | destruct (isocalendar y m d) as [[iy iw] iwd]; cbn [fst] in Hiy; destruct I as (_ & Bw & Bwd & E);
              pose proof (iso_weeks_52_53 iy) as W; specialize (Hiy ltac:(lia));
              pose proof (rs_week_spec iy iw iwd ltac:(lia) Bw Bwd) as PW; rewrite E, O in PW;
              destruct (d10 (iy / 100) ltac:(lia)) as (P1 & P2 & P3); destruct (d10 (iy mod 100) ltac:(lia)) as (Q1 & Q2 & Q3);
              destruct (d10 iw ltac:(lia)) as (W1 & W2 & W3);
              destruct F as [-> | ->]; cbn [Z.eqb Pos.eqb form_ext Z.even] ];
    unfold time_text, render4, render3, render2, render1; cbn [app];
    unfold rs_parse_datetime; unf_ch; run'.
  - rewrite rs_date_ext by assumption. red1. rewrite rs_time_ext by (try reflexivity; assumption).
    cbn [set_ymd rdt0 r_year r_month r_day r_us r_has_date]. rewrite TF, TO. red1. f_equal. f_equal; lia.
  - rewrite rs_date_bas by assumption. red1. rewrite rs_time_bas by (try reflexivity; assumption).
    cbn [set_ymd rdt0 r_year r_month r_day r_us r_has_date]. rewrite TF, TO. red1. f_equal. f_equal; lia.
  - rewrite rs_date_ord_ext by assumption. rewrite N4. replace ((10 * (y / 100 / 10) + (y / 100) mod 10) * 100 + (10 * (y mod 100 / 10) + (y mod 100) mod 10)) with y by lia.
    rewrite rs_ordinal_spec by lia. rewrite Ey. red1. rewrite rs_time_ext by (try reflexivity; assumption).
    cbn [set_ymd rdt0 r_year r_month r_day r_us r_has_date]. rewrite TF, TO. red1. f_equal. f_equal; lia.
  - rewrite rs_date_ord_bas by assumption. replace (n mod 10 + (10 * (n / 100) + (n / 10) mod 10) * 10) with n by lia.
    replace ((10 * (y / 100 / 10) + (y / 100) mod 10) * 100 + (10 * (y mod 100 / 10) + (y mod 100) mod 10)) with y by lia.
    rewrite rs_ordinal_spec by lia. rewrite Ey. red1. rewrite rs_time_bas by (try reflexivity; assumption).
    cbn [set_ymd rdt0 r_year r_month r_day r_us r_has_date]. rewrite TF, TO. red1. f_equal. f_equal; lia.
  - rewrite rs_date_week_ext by (try assumption; lia). rewrite W3.
    replace ((10 * (iy / 100 / 10) + (iy / 100) mod 10) * 100 + (10 * (iy mod 100 / 10) + (iy mod 100) mod 10)) with iy by lia.
    rewrite PW. red1. rewrite rs_time_ext by (try reflexivity; assumption).
    cbn [set_ymd rdt0 r_year r_month r_day r_us r_has_date]. rewrite TF, TO. red1. f_equal. f_equal; lia.
  - rewrite rs_date_week_bas by (try assumption; lia). rewrite W3.
    replace ((10 * (iy / 100 / 10) + (iy / 100) mod 10) * 100 + (10 * (iy mod 100 / 10) + (iy mod 100) mod 10)) with iy by lia.
    rewrite PW. red1. rewrite rs_time_bas by (try reflexivity; assumption).
    cbn [set_ymd rdt0 r_year r_month r_day r_us r_has_date]. rewrite TF, TO. red1. f_equal. f_equal; lia.
Qed.

Theorem rs_parse_iso_datetime form sep y m d H M S f o :
  0 <= form <= 5 -> sep = 84 \/ sep = 32 -> valid_date y m d = true -> valid_time H M S 0 = true ->
  frac_ok f = true -> offs_ok o = true -> (4 <= form -> 1 <= iso_year_of y m d <= 9999) ->
  rs_parse_iso (iso_datetime form sep y m d H M S f o) = Ok (mkp 1 y m d H M S (frac_value f) (offs_value o)).
Proof.
  intros Hform Hsep Vd Vt Hf Ho Hiy. pose proof (valid_date_bounds _ _ _ Vd). pose proof (valid_time_bounds _ _ _ _ Vt).
  unfold rs_parse_iso. rewrite rs_parse_datetime_forms by assumption.
  cbn [r_has_date r_has_time r_year r_month r_day r_hour r_minute r_second r_us r_offset].
  unfold u8. rewrite !Z.mod_small by lia. unfold mk_datetime. rewrite Vd, (valid_time_frac _ _ _ _ Vt Hf). reflexivity.
Qed.

(* ---- time only.  The compiled parser accepts the bare extended form HH:MM:SS and the T-prefixed basic form THHMMSS
   (THH:MM:SS is the listed finding rs-T-extended-time-rejected, bare HHMMSS the listed finding rs-bare-hhmmss-rejected) *)
Theorem rs_parse_iso_time pre ext H M S f o :
  (pre = false /\ ext = true) \/ (pre = true /\ ext = false) -> valid_time H M S 0 = true -> frac_ok f = true -> offs_ok o = true ->
  rs_parse_iso (iso_time pre ext H M S f o) = Ok (mkp 3 0 0 0 H M S (frac_value f) (offs_value o)).
Proof.
  intros Hpe Vt Hf Ho. pose proof (valid_time_bounds _ _ _ _ Vt) as Bt.
  destruct (rs_tail f o Hf Ho) as [TF TO].
  destruct (d10 H ltac:(lia)) as (E1 & E2 & E3). destruct (d10 M ltac:(lia)) as (F1 & F2 & F3). destruct (d10 S ltac:(lia)) as (G1 & G2 & G3).
  assert (R : rs_parse_datetime (iso_time pre ext H M S f o) = Some (mkr 0 1 1 H M S (frac_value f) (offs_value o) false true ext)).
  { unfold iso_time, time_text, render2. destruct Hpe as [[-> ->] | [-> ->]]; cbn [app]; unfold rs_parse_datetime; unf_ch; run'.
    - unfold rs_parse_time, not_tzstart. unf_ch. run'. cbn [r_us]. rewrite TF, TO. red1. f_equal. f_equal; lia.
    - rewrite rs_time_bas by (try reflexivity; try assumption; left; reflexivity).
      cbn [rdt0 r_year r_month r_day r_us r_has_date]. rewrite TF, TO. red1. f_equal. f_equal; lia. }
  unfold rs_parse_iso. rewrite R.
  cbn [r_has_date r_has_time r_year r_month r_day r_hour r_minute r_second r_us r_offset].
  unfold u8. rewrite !Z.mod_small by lia. unfold mk_time. rewrite (valid_time_frac _ _ _ _ Vt Hf). reflexivity.
Qed.

(* ---- the two backends agree on every text of these forms *)
Theorem rs_eq_py_datetime form sep y m d H M S f o :
  0 <= form <= 5 -> sep = 84 \/ sep = 32 -> valid_date y m d = true -> valid_time H M S 0 = true ->
  frac_ok f = true -> offs_ok o = true -> (4 <= form -> 1001 <= iso_year_of y m d <= 9998) ->
  rs_parse_iso (iso_datetime form sep y m d H M S f o) = py_parse_iso (iso_datetime form sep y m d H M S f o).
Proof.
  intros. rewrite rs_parse_iso_datetime, py_parse_iso_datetime by (try assumption; intros; lia). reflexivity.
Qed.

Theorem rs_eq_py_time pre ext H M S f o :
  (pre = false /\ ext = true) \/ (pre = true /\ ext = false) -> valid_time H M S 0 = true -> frac_ok f = true -> offs_ok o = true ->
  rs_parse_iso (iso_time pre ext H M S f o) = py_parse_iso (iso_time pre ext H M S f o).
Proof.
  intros Hpe. intros. rewrite rs_parse_iso_time, py_parse_iso_time by (try assumption; tauto). reflexivity.
Qed.

(* ---- through pendulum.parse (either backend): the offset written in the text wins, otherwise the tz option (default UTC) *)
Lemma offs_value_range o v : offs_ok o = true -> offs_value o = Some v -> -86400 < v < 86400.
Proof.
  destruct o as [| |style neg hh mm]; cbn [offs_ok offs_value]; intros H E; inversion E; subst; [lia|].
  unfold hm_value. destruct (neg =? 0), (style =? 2); lia.
Qed.

Theorem parse_top_datetime rs exact tzopt now form sep y m d H M S f o :
  0 <= form <= 5 -> sep = 84 \/ sep = 32 -> valid_date y m d = true -> valid_time H M S 0 = true ->
  frac_ok f = true -> offs_ok o = true -> (4 <= form -> 1001 <= iso_year_of y m d <= 9998) ->
  (forall t, tzopt = Some t -> -86400 < t < 86400) ->
  parse_top rs exact tzopt now (iso_datetime form sep y m d H M S f o) =
  Ok (mkp 1 y m d H M S (frac_value f)
        (Some (match offs_value o with Some v => v | None => match tzopt with Some t => t | None => 0 end end))).
Proof.
  intros Hform Hsep Vd Vt Hf Ho Hiy Htz. unfold parse_top, base_parse.
  assert (E : (if rs then rs_parse_iso (iso_datetime form sep y m d H M S f o) else py_parse_iso (iso_datetime form sep y m d H M S f o))
              = Ok (mkp 1 y m d H M S (frac_value f) (offs_value o))).
  { destruct rs; [apply rs_parse_iso_datetime|apply py_parse_iso_datetime]; try assumption; intros; lia. }
  rewrite E. cbn [p_kind p_y p_m p_d p_H p_M p_S p_us p_off Z.eqb Pos.eqb]. unfold to_datetime.
  set (v := match offs_value o with Some v => v | None => match tzopt with Some t => t | None => 0 end end).
  assert (Hv : -86400 < v < 86400).
  { unfold v. destruct (offs_value o) as [v0|] eqn:Eo; [exact (offs_value_range o v0 Ho Eo)|].
    destruct tzopt as [t|]; [apply Htz; reflexivity|lia]. }
  replace ((-86400 <? v) && (v <? 86400)) with true by lia. reflexivity.
Qed.

(* the hypotheses are satisfiable, e.g. 2021-W13-3 12:30:45,123456789-05:30 *)
Example forms_hyps_satisfiable :
  valid_date 2021 3 31 = true /\ valid_time 12 30 45 0 = true /\ frac_ok (Some (44, [49; 50; 51; 52; 53; 54; 55; 56; 57])) = true /\
  offs_ok (OHM 0 1 5 30) = true /\ 1001 <= iso_year_of 2021 3 31 <= 9998 /\
  py_parse_iso (iso_datetime 4 32 2021 3 31 12 30 45 (Some (44, [49; 50; 51; 52; 53; 54; 55; 56; 57])) (OHM 0 1 5 30)) =
    Ok (mkp 1 2021 3 31 12 30 45 123456 (Some (-19800))).
Proof. vm_compute. repeat split; congruence. Qed.
