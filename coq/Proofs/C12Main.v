(* Proofs/C12Main.v — the statements of property C12 about the model (Model/StartEnd.v), assembled from C12Spec / C12Facts / C12Week,
   and the refutations (vm_compute on windows of real tz tables: America/Sao_Paulo, America/Havana, Pacific/Chatham, Pacific/Apia). *)
From Coq Require Import ZArith List Bool Lia ZifyBool.
From PV Require Import Lib.PyBase Spec.Cal Spec.Zone Proofs.CalFacts Proofs.ZoneFacts.
From PV Require Import Model.TzConvert Model.StartEndBase Gen.StartEnd Model.StartEnd Proofs.C12Spec Proofs.C12Facts Proofs.C12Week.
Import ListNotations.
Ltac Zify.zify_post_hook ::= Z.to_euclidean_division_equations.
Open Scope Z_scope.

Definition MAXW : Z := 315537897599999999.
Definition week_day (ws : Z) : Prop := 0 <= ws <= 6.
Definition we_of (ws : Z) : Z := (ws + 6) mod 7.     (* the consistent configuration: the week ends the day before it starts *)

(* ---------- values without DST (naive, fixed offset, a zone without transitions such as UTC): exact results ---------- *)
Lemma start_exact_plain u ws v : plain v -> wall_in_range (v_W v) = true -> valid_unit u -> week_day ws ->
  (0 <= unit_lo u ws (v_W v) -> exists f', dt_start_of ws u v = Ok (unit_lo u ws (v_W v), f')) /\
  (unit_lo u ws (v_W v) < 0 -> exists e, dt_start_of ws u v = Raise e).
Proof.
  intros P Hr Hu Hws. destruct (Z.eq_dec u 4) as [->|H4].
  - pose proof (dt_start_week_plain ws v P Hr Hws) as H. change (dt_start_of ws 4 v) with (dt_start_of_week ws v).
    destruct (0 <=? unit_lo 4 ws (v_W v)) eqn:E; split; intros; try lia; [exact H|eexists; exact H].
  - pose proof (dt_start_non_week ws u v (conj Hu H4) Hr (plain_boundary_ok _ _ P)) as H.
    destruct (0 <=? unit_lo u ws (v_W v)) eqn:E; split; intros; try lia; eexists; exact H.
Qed.

Lemma end_exact_plain u ws v : plain v -> wall_in_range (v_W v) = true -> valid_unit u -> week_day ws ->
  (unit_hi u ws (v_W v) <= MAXW -> exists f', dt_end_of (we_of ws) u v = Ok (unit_hi u ws (v_W v), f')) /\
  (MAXW < unit_hi u ws (v_W v) -> exists e, dt_end_of (we_of ws) u v = Raise e).
Proof.
  intros P Hr Hu Hws. unfold MAXW. destruct (Z.eq_dec u 4) as [->|H4].
  - pose proof (dt_end_week_plain ws v P Hr Hws) as H. cbv zeta in H. change (dt_end_of (we_of ws) 4 v) with (dt_end_of_week (we_of ws) v).
    unfold we_of. destruct (unit_hi 4 ws (v_W v) <=? 315537897599999999) eqn:E; split; intros; try lia; [exact H|eexists; exact H].
  - pose proof (dt_end_non_week (we_of ws) u v (conj Hu H4) Hr (plain_boundary_ok _ _ P)) as H.
    rewrite (unit_hi_ws_irrelevant u ws _ H4).
    destruct (unit_hi u 0 (v_W v) <=? 315537897599999999) eqn:E; split; intros; try lia; eexists; exact H.
Qed.

(* what a successful result must be *)
Lemma start_result_plain u ws v W' f' : plain v -> wall_in_range (v_W v) = true -> valid_unit u -> week_day ws ->
  dt_start_of ws u v = Ok (W', f') -> W' = unit_lo u ws (v_W v) /\ 0 <= W'.
Proof.
  intros P Hr Hu Hws E. destruct (start_exact_plain u ws v P Hr Hu Hws) as [A B].
  destruct (Z_lt_ge_dec (unit_lo u ws (v_W v)) 0) as [Hlt|Hge].
  - destruct (B Hlt) as [e He]. congruence.
  - destruct (A ltac:(lia)) as [f'' Hf]. split; [congruence|]. assert (W' = unit_lo u ws (v_W v)) by congruence. lia.
Qed.
Lemma end_result_plain u ws v W' f' : plain v -> wall_in_range (v_W v) = true -> valid_unit u -> week_day ws ->
  dt_end_of (we_of ws) u v = Ok (W', f') -> W' = unit_hi u ws (v_W v) /\ W' <= MAXW.
Proof.
  intros P Hr Hu Hws E. destruct (end_exact_plain u ws v P Hr Hu Hws) as [A B].
  destruct (Z_lt_ge_dec MAXW (unit_hi u ws (v_W v))) as [Hlt|Hge].
  - destruct (B Hlt) as [e He]. congruence.
  - destruct (A ltac:(lia)) as [f'' Hf]. split; [congruence|]. assert (W' = unit_hi u ws (v_W v)) by congruence. lia.
Qed.

(* instants in a zone without transitions *)
Lemma inst_plain z W f : z_trans z = [] -> inst z W f = W - MEG * z_init z.
Proof. intros H. unfold inst, off_local. rewrite H. reflexivity. Qed.
Lemma render_plain z U : z_trans z = [] -> render z U = (U + MEG * z_init z, false).
Proof. intros H. unfold render, off_utc, fold_utc. rewrite H. reflexivity. Qed.

(* ---------- tz-database zones: the same under the hypothesis that the boundary is not skipped ---------- *)
Lemma start_exact_dst u ws v : v_kind v = 2 -> non_week u -> wall_in_range (v_W v) = true ->
  ~ wall_skipped (v_zone v) (sec (unit_lo u ws (v_W v))) -> 0 <= unit_lo u ws (v_W v) ->
  dt_start_of ws u v = Ok (unit_lo u ws (v_W v), v_fold v).
Proof.
  intros Hk Hu Hr Hs H0. rewrite (dt_start_non_week ws u v Hu Hr (or_intror (or_intror Hs))).
  replace (0 <=? unit_lo u ws (v_W v)) with true by lia. unfold fold_out. rewrite Hk. reflexivity.
Qed.
Lemma end_exact_dst u ws we v : v_kind v = 2 -> non_week u -> wall_in_range (v_W v) = true ->
  ~ wall_skipped (v_zone v) (sec (unit_hi u ws (v_W v))) -> unit_hi u ws (v_W v) <= MAXW ->
  dt_end_of we u v = Ok (unit_hi u ws (v_W v), v_fold v).
Proof.
  intros Hk Hu Hr Hs H0. unfold MAXW in H0. destruct Hu as [Hu H4]. rewrite (unit_hi_ws_irrelevant u ws _ H4) in *.
  rewrite (dt_end_non_week we u v (conj Hu H4) Hr (or_intror (or_intror Hs))).
  replace (unit_hi u 0 (v_W v) <=? 315537897599999999) with true by lia. unfold fold_out. rewrite Hk. reflexivity.
Qed.

(* ---------- refutations on real tables ---------- *)
(* America/Sao_Paulo around 2013-10-20: DST starts at local midnight (00:00 -03 -> 01:00 -02), so 00:00..00:59:59 do not exist *)
Definition sao_paulo_2013 : zone := mkzone (-10800) [(63517834800, -7200)].
(* 2013-10-20 10:00:00 -02:00, as obtained by a conversion from UTC (fold 0) *)
Definition sp_value (f : bool) : dtv := mkdtv sao_paulo_2013 2 63517860000000000 f.

Lemma sp_facts :
  wf2_zone sao_paulo_2013 = true /\
  render sao_paulo_2013 (inst sao_paulo_2013 63517860000000000 false) = (63517860000000000, false) /\
  inst sao_paulo_2013 63517860000000000 false = inst sao_paulo_2013 63517860000000000 true /\
  wall_skipped sao_paulo_2013 (sec (unit_lo 3 0 63517860000000000)) /\
  dt_start_of 0 3 (sp_value false) = Ok (63517820400000000, false) /\      (* 2013-10-19 23:00:00 *)
  unit_id 3 0 63517820400000000 <> unit_id 3 0 63517860000000000 /\
  dt_start_of 0 3 (sp_value true) = Ok (63517827600000000, false) /\       (* 2013-10-20 01:00:00 *)
  unit_id 3 0 63517827600000000 = unit_id 3 0 63517860000000000.
Proof. vm_compute. repeat split; try reflexivity; discriminate. Qed.

(* America/Sao_Paulo around 2014-02-16: DST ends at local midnight (24:00 -02 -> 23:00 -03), so 23:00..23:59:59 of 2014-02-15 happen twice *)
Definition sao_paulo_2014 : zone := mkzone (-7200) [(63528112800, -10800)].
Lemma sp_end_facts :
  wf2_zone sao_paulo_2014 = true /\
  wall_repeated sao_paulo_2014 (sec (unit_hi 3 0 63528062400000000)) /\
  dt_end_of 6 3 (mkdtv sao_paulo_2014 2 63528062400000000 false) = Ok (63528105599999999, false) /\   (* the FIRST 23:59:59.999999 *)
  (let U := inst sao_paulo_2014 63528105599999999 false in
   unit_id 3 0 (fst (render sao_paulo_2014 (U + 1))) = unit_id 3 0 63528062400000000) /\            (* one microsecond later it is 23:00 of the same day *)
  dt_end_of 6 3 (mkdtv sao_paulo_2014 2 63528062400000000 true) = Ok (63528105599999999, true) /\
  (let U := inst sao_paulo_2014 63528105599999999 true in
   unit_id 3 0 (fst (render sao_paulo_2014 (U + 1))) <> unit_id 3 0 63528062400000000).
Proof. vm_compute. repeat split; try reflexivity; discriminate. Qed.

(* America/Havana around 2013-11-03: DST ends at 01:00 -> 00:00, so 00:00..00:59:59 of that day happen twice *)
Definition havana_2013 : zone := mkzone (-14400) [(63519051600, -18000)].
Lemma havana_facts :
  wf2_zone havana_2013 = true /\
  wall_repeated havana_2013 (sec (unit_lo 3 0 63519076800000000)) /\
  dt_start_of 0 3 (mkdtv havana_2013 2 63519076800000000 true) = Ok (63519033600000000, true) /\    (* the SECOND 00:00 *)
  (let U := inst havana_2013 63519033600000000 true in
   unit_id 3 0 (fst (render havana_2013 (U - 1))) = unit_id 3 0 63519076800000000) /\               (* one microsecond earlier it is 00:59:59.999999 of the same day *)
  dt_start_of 0 3 (mkdtv havana_2013 2 63519076800000000 false) = Ok (63519033600000000, false) /\
  (let U := inst havana_2013 63519033600000000 false in
   unit_id 3 0 (fst (render havana_2013 (U - 1))) <> unit_id 3 0 63519076800000000).
Proof. vm_compute. repeat split; try reflexivity; discriminate. Qed.

(* Pacific/Chatham 1992-10-04: 02:45 -> 03:45; end_of('hour') of 02:44:59.999999 constructs 02:59:59.999999, which is skipped *)
Definition chatham_1992 : zone := mkzone 45900 [(62853717600, 49500)].
Lemma chatham_facts :
  wf2_zone chatham_1992 = true /\
  wall_skipped chatham_1992 (sec (unit_hi 2 0 62853763499999999)) /\
  dt_end_of 6 2 (mkdtv chatham_1992 2 62853763499999999 false) = Ok (62853760799999999, false) /\    (* 01:59:59.999999: the previous hour *)
  unit_id 2 0 62853760799999999 <> unit_id 2 0 62853763499999999 /\
  dt_end_of 6 2 (mkdtv chatham_1992 2 62853763499999999 true) = Ok (62853767999999999, false) /\     (* 03:59:59.999999: the next hour *)
  unit_id 2 0 62853767999999999 <> unit_id 2 0 62853763499999999.
Proof. vm_compute. repeat split; try reflexivity; discriminate. Qed.

(* Pacific/Apia: 2011-12-30 does not exist (UTC-10 -> UTC+14 at the end of 2011-12-29).  Walking back day by day from 2011-12-31 00:00
   constructs 2011-12-30 00:00, which create() moves forward by the 24 h gap onto 2011-12-31 00:00 again *)
Definition apia_2011 : zone := mkzone (-36000) [(63460836000, 50400)].
Definition apia_dec31 : dtv := mkdtv apia_2011 2 63460886400000000 false.     (* 2011-12-31 00:00:00 +14:00, a Saturday *)

Lemma walk_fixpoint k wd v r : step_day v k = Ok r -> upd v r = v -> wall_dow (v_W v) <> wd ->
  forall fuel, dt_walk fuel k wd v = Raise E_OutOfFuel.
Proof.
  intros Hs Hu Hd. induction fuel as [|fuel IH]; [reflexivity|].
  cbn [dt_walk]. replace (wall_dow (v_W v) =? wd) with false by lia. cbn [negb]. rewrite Hs. cbn [bind]. rewrite Hu. exact IH.
Qed.

Lemma apia_facts :
  wf2_zone apia_2011 = true /\
  step_day apia_dec31 (-1) = Ok (63460886400000000, false) /\
  (forall wd fuel, 0 <= wd <= 6 -> wd <> 5 -> dt_walk fuel (-1) wd apia_dec31 = Raise E_OutOfFuel) /\
  (* 2012-01-01 12:00 (Sunday), week starting on Monday: the model of start_of('week') runs out of any fuel *)
  dt_start_of 0 4 (mkdtv apia_2011 2 63461016000000000 true) = Raise E_OutOfFuel.
Proof.
  split; [vm_compute; reflexivity|]. assert (S : step_day apia_dec31 (-1) = Ok (63460886400000000, false)) by (vm_compute; reflexivity).
  split; [exact S|]. split.
  - intros wd fuel Hwd H5. apply (walk_fixpoint (-1) wd apia_dec31 _ S); [reflexivity|].
    assert (E : wall_dow (v_W apia_dec31) = 5) by (vm_compute; reflexivity). rewrite E. lia.
  - vm_compute. reflexivity.
Qed.

(* ---------- derived statements for values without DST ---------- *)
Section Plain.
Variables (u ws : Z) (v : dtv).
Hypothesis P : plain v.
Hypothesis Hr : wall_in_range (v_W v) = true.
Hypothesis Hu : valid_unit u.
Hypothesis Hws : week_day ws.

Lemma start_same_unit_plain W' f' : dt_start_of ws u v = Ok (W', f') -> unit_id u ws W' = unit_id u ws (v_W v).
Proof. intros E. destruct (start_result_plain u ws v W' f' P Hr Hu Hws E) as [-> _]. apply unit_lo_same. exact Hu. Qed.

Lemma end_same_unit_plain W' f' : dt_end_of (we_of ws) u v = Ok (W', f') -> unit_id u ws W' = unit_id u ws (v_W v).
Proof. intros E. destruct (end_result_plain u ws v W' f' P Hr Hu Hws E) as [-> _]. apply unit_hi_same. exact Hu. Qed.

Lemma start_le_x_le_end_plain Ws fs We fe : dt_start_of ws u v = Ok (Ws, fs) -> dt_end_of (we_of ws) u v = Ok (We, fe) ->
  Ws <= v_W v <= We /\
  (z_trans (v_zone v) = [] -> inst (v_zone v) Ws fs <= inst (v_zone v) (v_W v) (v_fold v) <= inst (v_zone v) We fe).
Proof.
  intros E1 E2. destruct (start_result_plain u ws v Ws fs P Hr Hu Hws E1) as [-> _].
  destruct (end_result_plain u ws v We fe P Hr Hu Hws E2) as [-> _].
  pose proof (unit_lo_le u ws (v_W v) Hu). split; [lia|]. intros Hz. rewrite !inst_plain by exact Hz. lia.
Qed.

Lemma pred_start_other_unit_plain Ws fs : dt_start_of ws u v = Ok (Ws, fs) ->
  (forall W'', W'' < Ws -> unit_id u ws W'' <> unit_id u ws (v_W v)) /\
  (z_trans (v_zone v) = [] -> unit_id u ws (fst (render (v_zone v) (inst (v_zone v) Ws fs - 1))) <> unit_id u ws (v_W v)).
Proof.
  intros E1. destruct (start_result_plain u ws v Ws fs P Hr Hu Hws E1) as [-> _]. split.
  - intros W'' Hlt. apply unit_pred_other; assumption.
  - intros Hz. rewrite inst_plain, render_plain by exact Hz. cbn [fst]. apply unit_pred_other; [exact Hu|lia].
Qed.

Lemma succ_end_other_unit_plain We fe : dt_end_of (we_of ws) u v = Ok (We, fe) ->
  (forall W'', We < W'' -> unit_id u ws W'' <> unit_id u ws (v_W v)) /\
  (z_trans (v_zone v) = [] -> unit_id u ws (fst (render (v_zone v) (inst (v_zone v) We fe + 1))) <> unit_id u ws (v_W v)).
Proof.
  intros E1. destruct (end_result_plain u ws v We fe P Hr Hu Hws E1) as [-> _]. split.
  - intros W'' Hlt. apply unit_succ_other; assumption.
  - intros Hz. rewrite inst_plain, render_plain by exact Hz. cbn [fst]. apply unit_succ_other; [exact Hu|lia].
Qed.

Lemma start_idempotent_plain Ws fs : dt_start_of ws u v = Ok (Ws, fs) -> exists f'', dt_start_of ws u (upd v (Ws, fs)) = Ok (Ws, f'').
Proof.
  intros E1. destruct (start_result_plain u ws v Ws fs P Hr Hu Hws E1) as [-> H0].
  pose proof (unit_lo_le u ws (v_W v) Hu) as L. pose proof (proj1 (wall_in_range_iff _) Hr) as HW.
  assert (Hr' : wall_in_range (v_W (upd v (unit_lo u ws (v_W v), fs))) = true) by (apply wall_in_range_iff; cbn; lia).
  destruct (start_exact_plain u ws (upd v (unit_lo u ws (v_W v), fs)) P Hr' Hu Hws) as [A _].
  cbn [upd fst v_W] in A. rewrite (unit_lo_idem u ws _ Hu) in A. apply A. exact H0.
Qed.

Lemma end_idempotent_plain We fe : dt_end_of (we_of ws) u v = Ok (We, fe) -> exists f'', dt_end_of (we_of ws) u (upd v (We, fe)) = Ok (We, f'').
Proof.
  intros E1. destruct (end_result_plain u ws v We fe P Hr Hu Hws E1) as [-> H0].
  pose proof (unit_lo_le u ws (v_W v) Hu) as L. pose proof (proj1 (wall_in_range_iff _) Hr) as HW. unfold MAXW in H0.
  assert (Hr' : wall_in_range (v_W (upd v (unit_hi u ws (v_W v), fe))) = true) by (apply wall_in_range_iff; cbn; lia).
  destruct (end_exact_plain u ws (upd v (unit_hi u ws (v_W v), fe)) P Hr' Hu Hws) as [A _].
  cbn [upd fst v_W] in A. rewrite (unit_hi_idem u ws _ Hu) in A. apply A. exact H0.
Qed.
End Plain.

(* the result does not depend on the fold flag of the instance *)
Definition same_wall (a b : result (Z * bool)) : Prop :=
  match a, b with Ok (W1, _), Ok (W2, _) => W1 = W2 | Raise _, Raise _ => True | _, _ => False end.
Definition with_fold (v : dtv) (f : bool) : dtv := mkdtv (v_zone v) (v_kind v) (v_W v) f.

Lemma fold_independent_plain u ws v f1 f2 : plain v -> wall_in_range (v_W v) = true -> valid_unit u -> week_day ws ->
  same_wall (dt_start_of ws u (with_fold v f1)) (dt_start_of ws u (with_fold v f2)) /\
  same_wall (dt_end_of (we_of ws) u (with_fold v f1)) (dt_end_of (we_of ws) u (with_fold v f2)).
Proof.
  intros P Hr Hu Hws.
  destruct (start_exact_plain u ws (with_fold v f1) P Hr Hu Hws) as [A1 B1].
  destruct (start_exact_plain u ws (with_fold v f2) P Hr Hu Hws) as [A2 B2].
  destruct (end_exact_plain u ws (with_fold v f1) P Hr Hu Hws) as [C1 D1].
  destruct (end_exact_plain u ws (with_fold v f2) P Hr Hu Hws) as [C2 D2].
  cbn [with_fold v_W] in *. split.
  - destruct (Z_lt_ge_dec (unit_lo u ws (v_W v)) 0) as [Hlt|Hge].
    + destruct (B1 Hlt) as [e1 ->]. destruct (B2 Hlt) as [e2 ->]. exact I.
    + destruct (A1 ltac:(lia)) as [g1 ->]. destruct (A2 ltac:(lia)) as [g2 ->]. reflexivity.
  - destruct (Z_lt_ge_dec MAXW (unit_hi u ws (v_W v))) as [Hlt|Hge].
    + destruct (D1 Hlt) as [e1 ->]. destruct (D2 Hlt) as [e2 ->]. exact I.
    + destruct (C1 ltac:(lia)) as [g1 ->]. destruct (C2 ltac:(lia)) as [g2 ->]. reflexivity.
Qed.

(* tz-database zones, boundary not skipped: same unit, idempotent, independent of the fold *)
Lemma start_dst_props u ws v : v_kind v = 2 -> non_week u -> wall_in_range (v_W v) = true ->
  ~ wall_skipped (v_zone v) (sec (unit_lo u ws (v_W v))) -> 0 <= unit_lo u ws (v_W v) ->
  let r := (unit_lo u ws (v_W v), v_fold v) in
  dt_start_of ws u v = Ok r /\ unit_id u ws (fst r) = unit_id u ws (v_W v) /\ fst r <= v_W v /\
  dt_start_of ws u (upd v r) = Ok r /\
  (forall f, same_wall (dt_start_of ws u (with_fold v f)) (dt_start_of ws u v)).
Proof.
  intros Hk Hu Hr Hs H0. cbv zeta. pose proof (start_exact_dst u ws v Hk Hu Hr Hs H0) as E.
  destruct Hu as [Hu H4]. pose proof (unit_lo_le u ws (v_W v) Hu) as L. pose proof (proj1 (wall_in_range_iff _) Hr) as HW.
  split; [exact E|]. split; [apply unit_lo_same; exact Hu|]. split; [cbn [fst]; lia|]. split.
  - assert (Hr' : wall_in_range (v_W (upd v (unit_lo u ws (v_W v), v_fold v))) = true) by (apply wall_in_range_iff; cbn; lia).
    pose proof (start_exact_dst u ws (upd v (unit_lo u ws (v_W v), v_fold v)) Hk (conj Hu H4) Hr') as E2.
    cbn [upd fst snd v_W v_zone v_fold] in E2. rewrite (unit_lo_idem u ws _ Hu) in E2. apply E2; assumption.
  - intros f. pose proof (start_exact_dst u ws (with_fold v f) Hk (conj Hu H4) Hr Hs H0) as E3. cbn [with_fold v_W v_fold] in E3.
    rewrite E3, E. reflexivity.
Qed.

Lemma end_dst_props u ws we v : v_kind v = 2 -> non_week u -> wall_in_range (v_W v) = true ->
  ~ wall_skipped (v_zone v) (sec (unit_hi u ws (v_W v))) -> unit_hi u ws (v_W v) <= MAXW ->
  let r := (unit_hi u ws (v_W v), v_fold v) in
  dt_end_of we u v = Ok r /\ unit_id u ws (fst r) = unit_id u ws (v_W v) /\ v_W v <= fst r /\
  dt_end_of we u (upd v r) = Ok r /\
  (forall f, same_wall (dt_end_of we u (with_fold v f)) (dt_end_of we u v)).
Proof.
  intros Hk Hu Hr Hs H0. cbv zeta. pose proof (end_exact_dst u ws we v Hk Hu Hr Hs H0) as E.
  destruct Hu as [Hu H4]. pose proof (unit_lo_le u ws (v_W v) Hu) as L. pose proof (proj1 (wall_in_range_iff _) Hr) as HW.
  split; [exact E|]. split; [apply unit_hi_same; exact Hu|]. split; [cbn [fst]; lia|]. split.
  - unfold MAXW in H0.
    assert (Hr' : wall_in_range (v_W (upd v (unit_hi u ws (v_W v), v_fold v))) = true) by (apply wall_in_range_iff; cbn; lia).
    pose proof (end_exact_dst u ws we (upd v (unit_hi u ws (v_W v), v_fold v)) Hk (conj Hu H4) Hr') as E2.
    cbn [upd fst snd v_W v_zone v_fold] in E2. rewrite (unit_hi_idem u ws _ Hu) in E2. apply E2; assumption.
  - intros f. pose proof (end_exact_dst u ws we (with_fold v f) Hk (conj Hu H4) Hr Hs H0) as E3. cbn [with_fold v_W v_fold] in E3.
    rewrite E3, E. reflexivity.
Qed.

(* non-vacuity of the tz-database hypotheses: Sao_Paulo, start_of('hour') of the same value: 10:00 exists *)
Example dst_hypotheses_satisfiable :
  v_kind (sp_value false) = 2 /\ non_week 2 /\ wall_in_range (v_W (sp_value false)) = true /\
  ~ wall_skipped (v_zone (sp_value false)) (sec (unit_lo 2 0 (v_W (sp_value false)))) /\ 0 <= unit_lo 2 0 (v_W (sp_value false)).
Proof.
  split; [reflexivity|]. split; [unfold non_week, valid_unit; lia|]. split; [vm_compute; reflexivity|]. split.
  - unfold wall_skipped. vm_compute. discriminate.
  - vm_compute. discriminate.
Qed.

(* ---------- Date: the bounds computed by the model delimit the unit ---------- *)
Lemma lo_midnight u ws W : date_unit u -> unit_lo u ws W = wall_of_ord (ord_of (unit_lo u ws W)).
Proof.
  unfold date_unit. intros Hu. assert (C : u = 3 \/ u = 4 \/ u = 5 \/ u = 6 \/ u = 7 \/ u = 8) by lia.
  destruct C as [->|[->|[->|[->|[->| ->]]]]];
  rewrite ?unit_lo_3, ?unit_lo_4, ?unit_lo_5, ?unit_lo_6, ?unit_lo_7, ?unit_lo_8; unfold wall_of_ord, ord_of, wall_of; rewrite upd_val; lia.
Qed.
Lemma hi_last u ws W : date_unit u -> unit_hi u ws W = wall_of_ord (ord_of (unit_hi u ws W)) + (us_per_day - 1).
Proof.
  unfold date_unit. intros Hu. assert (C : u = 3 \/ u = 4 \/ u = 5 \/ u = 6 \/ u = 7 \/ u = 8) by lia.
  destruct C as [->|[->|[->|[->|[->| ->]]]]];
  rewrite ?unit_hi_3, ?unit_hi_4, ?unit_hi_5, ?unit_hi_6, ?unit_hi_7, ?unit_hi_8; unfold wall_of_ord, ord_of, wall_of; rewrite upd_val; lia.
Qed.

Lemma date_delimit u ws n : date_unit u ->
  let lo := day_lo u ws n in let hi := day_hi u ws n in
  lo <= n <= hi /\
  unit_id u ws (wall_of_ord lo) = unit_id u ws (wall_of_ord n) /\ unit_id u ws (wall_of_ord hi) = unit_id u ws (wall_of_ord n) /\
  unit_id u ws (wall_of_ord (lo - 1)) <> unit_id u ws (wall_of_ord n) /\ unit_id u ws (wall_of_ord (hi + 1)) <> unit_id u ws (wall_of_ord n) /\
  day_lo u ws lo = lo /\ day_hi u ws hi = hi.
Proof.
  intros Hd. assert (Hu : valid_unit u) by (unfold date_unit, valid_unit in *; lia). cbv zeta. unfold day_lo, day_hi.
  set (W := wall_of_ord n). pose proof (unit_lo_le u ws W Hu) as L.
  pose proof (lo_midnight u ws W Hd) as ML. pose proof (hi_last u ws W Hd) as MH.
  set (lo := ord_of (unit_lo u ws W)) in *. set (hi := ord_of (unit_hi u ws W)) in *.
  assert (Ilo : unit_id u ws (wall_of_ord lo) = unit_id u ws W) by (rewrite <- ML; apply unit_lo_same; exact Hu).
  assert (Ihi : unit_id u ws (wall_of_ord hi) = unit_id u ws W).
  { apply (unit_range_iff u ws W _ Hu). unfold wall_of_ord in *. rewrite upd_val in *. lia. }
  split; [unfold W, wall_of_ord in *; rewrite upd_val in *; lia|].
  split; [exact Ilo|]. split; [exact Ihi|]. split; [|split; [|split]].
  - apply unit_pred_other; [exact Hu|]. unfold wall_of_ord in *. rewrite upd_val in *. lia.
  - apply unit_succ_other; [exact Hu|]. unfold wall_of_ord in *. rewrite upd_val in *. lia.
  - destruct (unit_bounds_of_id u ws _ _ Hu Ilo) as [E _]. rewrite E. reflexivity.
  - destruct (unit_bounds_of_id u ws _ _ Hu Ihi) as [_ E]. rewrite E. reflexivity.
Qed.

(* ---------- statements proved here and exported by Props/C12.v ---------- *)
From PV Require Import Gen.StartEnd.
Lemma tz_kept_l : forall v r, v_zone (upd v r) = v_zone v /\ v_kind (upd v r) = v_kind v.
Proof. intros v r. split; reflexivity. Qed.

Lemma start_skipped_refuted_l : exists z W u ws, wf2_zone z = true /\
  render z (inst z W false) = (W, false) /\ inst z W false = inst z W true /\
  wall_skipped z (sec (unit_lo u ws W)) /\
  (exists W0 f0, dt_start_of ws u (mkdtv z 2 W false) = Ok (W0, f0) /\ unit_id u ws W0 <> unit_id u ws W) /\
  ~ same_wall (dt_start_of ws u (mkdtv z 2 W false)) (dt_start_of ws u (mkdtv z 2 W true)).
Proof.
  exists sao_paulo_2013, 63517860000000000, 3, 0.
  destruct sp_facts as (A & B & C & D & E & F & G & H).
  split; [exact A|]. split; [exact B|]. split; [exact C|]. split; [exact D|]. split.
  - exists 63517820400000000, false. split; [exact E|exact F].
  - change (mkdtv sao_paulo_2013 2 63517860000000000 false) with (sp_value false).
    change (mkdtv sao_paulo_2013 2 63517860000000000 true) with (sp_value true). rewrite E, G. cbn. discriminate.
Qed.

Lemma start_repeated_refuted_l : exists z W u ws, wf2_zone z = true /\ wall_repeated z (sec (unit_lo u ws W)) /\
  exists W1, dt_start_of ws u (mkdtv z 2 W true) = Ok (W1, true) /\
  unit_id u ws (fst (render z (inst z W1 true - 1))) = unit_id u ws W /\
  dt_start_of ws u (mkdtv z 2 W false) = Ok (W1, false) /\
  unit_id u ws (fst (render z (inst z W1 false - 1))) <> unit_id u ws W.
Proof.
  exists havana_2013, 63519076800000000, 3, 0. destruct havana_facts as (A & B & C & D & E & F).
  split; [exact A|]. split; [exact B|]. exists 63519033600000000. repeat split; assumption.
Qed.

Lemma end_skipped_refuted_l : exists z W u ws, wf2_zone z = true /\ wall_skipped z (sec (unit_hi u ws W)) /\
  (exists W0 f0, dt_end_of (we_of ws) u (mkdtv z 2 W false) = Ok (W0, f0) /\ unit_id u ws W0 <> unit_id u ws W) /\
  (exists W1 f1, dt_end_of (we_of ws) u (mkdtv z 2 W true) = Ok (W1, f1) /\ unit_id u ws W1 <> unit_id u ws W).
Proof.
  exists chatham_1992, 62853763499999999, 2, 0. destruct chatham_facts as (A & B & C & D & E & F).
  split; [exact A|]. split; [exact B|]. split.
  - exists 62853760799999999, false. split; [exact C|exact D].
  - exists 62853767999999999, false. split; [exact E|exact F].
Qed.

Lemma end_repeated_refuted_l : exists z W u ws, wf2_zone z = true /\ wall_repeated z (sec (unit_hi u ws W)) /\
  exists W1, dt_end_of (we_of ws) u (mkdtv z 2 W false) = Ok (W1, false) /\
  unit_id u ws (fst (render z (inst z W1 false + 1))) = unit_id u ws W /\
  dt_end_of (we_of ws) u (mkdtv z 2 W true) = Ok (W1, true) /\
  unit_id u ws (fst (render z (inst z W1 true + 1))) <> unit_id u ws W.
Proof.
  exists sao_paulo_2014, 63528062400000000, 3, 0. destruct sp_end_facts as (A & B & C & D & E & F).
  split; [exact A|]. split; [exact B|]. exists 63528105599999999. repeat split; assumption.
Qed.

Lemma week_walk_terminates_refuted_l : exists z v, wf2_zone z = true /\ v_zone v = z /\
  (forall wd fuel, 0 <= wd <= 6 -> wd <> 5 -> dt_walk fuel (-1) wd v = Raise E_OutOfFuel) /\
  dt_start_of 0 4 (mkdtv z 2 63461016000000000 true) = Raise E_OutOfFuel.
Proof.
  exists apia_2011, apia_dec31. destruct apia_facts as (A & _ & C & D). split; [exact A|]. split; [reflexivity|]. split; assumption.
Qed.

Lemma default_week_configuration_consistent_l : week_day C12_WEEK_STARTS_AT_DEFAULT /\ C12_WEEK_ENDS_AT_DEFAULT = we_of C12_WEEK_STARTS_AT_DEFAULT.
Proof. split; [unfold week_day; vm_compute; split; discriminate|reflexivity]. Qed.
