(* Proofs/C06History.v — C06: process histories (Model/PdHistory.v).
   1. the code: what a step reports does not depend on where in a process it stands;
   2. a memo in front of precise_diff is transparent when its key separates everything precise_diff is a function of
      (memo_transparent, identity_memo_transparent) ...
   3. ... and the key CPython's datetime ==/hash provide does not: the same two instants written in UTC and then at +05:00
      (cpython_eq_memo_not_transparent), and the two occurrences of a repeated wall time (cpython_eq_memo_conflates_folds). *)
From Coq Require Import ZArith List Bool Lia.
From PV Require Import Lib.PyBase Spec.Cal Gen.Constants Gen.Helpers Model.PdBase Gen.PreciseDiff Model.RustPreciseDiff Model.PdInterval Model.PdHistory.
Import ListNotations.
Open Scope Z_scope.

(* ------------------------------------------------------------------ 1. the code *)
Lemma history_split : forall rs h t, run_history rs (h ++ t) = run_history rs h ++ run_history rs t.
Proof. intros; unfold run_history; apply map_app. Qed.

Lemma history_length : forall rs h, length (run_history rs h) = length h.
Proof. intros; unfold run_history; apply map_length. Qed.

Lemma nth_step : forall rs h s t, nth_error (run_history rs (h ++ s :: t)) (length h) = Some (eval_step rs s).
Proof.
  intros. rewrite history_split. rewrite nth_error_app2; rewrite history_length; [|lia].
  replace (length h - length h)%nat with O by lia. reflexivity.
Qed.

Lemma components_independent_of_history : forall rs h1 t1 h2 t2 s,
  nth_error (run_history rs (h1 ++ s :: t1)) (length h1) = Some (eval_step rs s)
  /\ nth_error (run_history rs (h2 ++ s :: t2)) (length h2) = Some (eval_step rs s).
Proof. intros; split; apply nth_step. Qed.

Lemma earlier_intervals_leave_no_trace : forall rs h s, run_history rs (h ++ [s]) = run_history rs h ++ run_history rs [s].
Proof. intros; apply history_split. Qed.

(* ------------------------------------------------------------------ 2. a memo with a faithful key is transparent *)
Definition cache_sound (pd : pdt -> pdt -> result pdiff) (c : cache) : Prop :=
  forall k r, In (k, r) c -> pd (fst k) (snd k) = Ok r.
Definition key_faithful (eqv : pkey -> pkey -> bool) (pd : pdt -> pdt -> result pdiff) : Prop :=
  forall k k', eqv k k' = true -> pd (fst k) (snd k) = pd (fst k') (snd k').

Lemma lookup_sound : forall eqv pd c k r, key_faithful eqv pd -> cache_sound pd c -> lookup eqv k c = Some r -> pd (fst k) (snd k) = Ok r.
Proof.
  intros eqv pd c k r Hf. induction c as [|[k' r'] t IH]; intros Hs Hl; simpl in Hl; [discriminate|].
  destruct (eqv k k') eqn:E.
  - inversion Hl; subst. rewrite (Hf _ _ E). apply (Hs k' r). left; reflexivity.
  - apply IH; [|exact Hl]. intros k2 r2 Hin. apply Hs. right; exact Hin.
Qed.

Lemma memo_pd_sound : forall eqv pd c a b, key_faithful eqv pd -> cache_sound pd c ->
  fst (memo_pd eqv pd c a b) = pd a b /\ cache_sound pd (snd (memo_pd eqv pd c a b)).
Proof.
  intros eqv pd c a b Hf Hs. unfold memo_pd.
  destruct (lookup eqv (a, b) c) eqn:L.
  - simpl. split; [|exact Hs]. symmetry. apply (lookup_sound eqv pd c (a, b) p Hf Hs L).
  - destruct (pd a b) eqn:P; simpl; split; auto.
    intros k r [Hin|Hin]; [inversion Hin; subst; simpl; exact P | apply Hs; exact Hin].
Qed.

Lemma memo_transparent_from : forall eqv pd h c, key_faithful eqv pd -> cache_sound pd c -> run_memo eqv pd c h = map (step_with pd) h.
Proof.
  intros eqv pd h. induction h as [|s t IH]; intros c Hf Hs; [reflexivity|].
  simpl. destruct (hs_kind s) eqn:K.
  - destruct (memo_pd_sound eqv pd c (hs_a s) (hs_b s) Hf Hs) as [E1 S1].
    destruct (memo_pd eqv pd c (hs_a s) (hs_b s)) as [r1 c1]. simpl in E1, S1.
    destruct (memo_pd_sound eqv pd c1 (hs_b s) (hs_a s) Hf S1) as [E2 S2].
    destruct (memo_pd eqv pd c1 (hs_b s) (hs_a s)) as [r2 c2]. simpl in E2, S2.
    subst. rewrite (IH c2 Hf S2). unfold step_with at 2. rewrite K. reflexivity.
  - rewrite (IH c Hf Hs). reflexivity.
Qed.

Lemma memo_transparent : forall eqv pd h, key_faithful eqv pd -> run_memo eqv pd [] h = map (step_with pd) h.
Proof. intros. apply memo_transparent_from; [assumption|]. intros k r []. Qed.

Lemma pdt_eqb_eq : forall x y, pdt_eqb x y = true -> x = y.
Proof.
  intros [] []; unfold pdt_eqb; simpl; intro H.
  repeat (apply andb_prop in H; destruct H as [H ?]).
  repeat match goal with
         | E : (_ =? _) = true |- _ => apply Z.eqb_eq in E
         | E : Bool.eqb _ _ = true |- _ => apply Bool.eqb_prop in E
         end.
  subst. reflexivity.
Qed.

Lemma identity_faithful : forall pd, key_faithful identity_eq pd.
Proof.
  intros pd [a b] [a' b'] H. unfold identity_eq in H; simpl in *.
  apply andb_prop in H; destruct H as [H1 H2].
  apply pdt_eqb_eq in H1; apply pdt_eqb_eq in H2. subst; reflexivity.
Qed.

Lemma identity_memo_transparent : forall rs h, run_memo identity_eq (pd_of rs) [] h = run_history rs h.
Proof. intros. apply memo_transparent. apply identity_faithful. Qed.

(* ------------------------------------------------------------------ 3. the ==/hash key is not faithful *)
(* 2021-02-28T22:00Z .. 2021-03-31T22:00Z, then the same two instants at +05:00: 2021-03-01T03:00 .. 2021-04-01T03:00 *)
Definition w_ua := mkpdt 2021 2 28 22 0 0 0 0 true 1 1 true.
Definition w_ub := mkpdt 2021 3 31 22 0 0 0 0 true 1 1 true.
Definition w_fa := mkpdt 2021 3 1 3 0 0 0 18000 true 2 2 true.
Definition w_fb := mkpdt 2021 4 1 3 0 0 0 18000 true 2 2 true.

Lemma witness_keys_equal : cpython_eq (w_ua, w_ub) (w_fa, w_fb) = true.
Proof. vm_compute. reflexivity. Qed.

(* the code reports 1 month 3 days for the UTC pair and 1 month 0 days for the +05:00 pair, each rebuilding its own end *)
Lemma witness_code : forall rs,
  run_history rs [mkhstep HIv w_ua w_ub; mkhstep HIv w_fa w_fb]
  = [ [[0; 0; 1; 0; 3; 0; 0; 0; 0; 1; 31]; [0; 2021; 3; 31; 22; 0; 0; 0]; [0; 0; -1; 0; -3; 0; 0; 0; 0; -1; -31]];
      [[0; 0; 1; 0; 0; 0; 0; 0; 0; 1; 31]; [0; 2021; 4; 1; 3; 0; 0; 0];   [0; 0; -1; 0; 0; 0; 0; 0; 0; -1; -31]] ].
Proof. intros []; vm_compute; reflexivity. Qed.

(* behind a memo keyed by ==/hash the second Interval gets the first one's components and a + (b - a) lands three days late *)
Lemma witness_memo : forall rs,
  nth_error (run_memo cpython_eq (pd_of rs) [] [mkhstep HIv w_ua w_ub; mkhstep HIv w_fa w_fb]) 1
  = Some [[0; 0; 1; 0; 3; 0; 0; 0; 0; 1; 31]; [0; 2021; 4; 4; 3; 0; 0; 0]; [0; 0; -1; 0; -3; 0; 0; 0; 0; -1; -31]].
Proof. intros []; vm_compute; reflexivity. Qed.

Lemma cpython_eq_memo_not_transparent : forall rs, exists h, run_memo cpython_eq (pd_of rs) [] h <> run_history rs h.
Proof.
  intros rs. exists [mkhstep HIv w_ua w_ub; mkhstep HIv w_fa w_fb]. intro H.
  assert (E : nth_error (run_memo cpython_eq (pd_of rs) [] [mkhstep HIv w_ua w_ub; mkhstep HIv w_fa w_fb]) 1
              = nth_error (run_history rs [mkhstep HIv w_ua w_ub; mkhstep HIv w_fa w_fb]) 1) by (rewrite H; reflexivity).
  rewrite witness_memo, witness_code in E. simpl in E. discriminate E.
Qed.

(* ... and in the other order the UTC pair gets the +05:00 pair's components: whichever zone comes first wins *)
Lemma cpython_eq_memo_order_dependent : forall rs,
  nth_error (run_memo cpython_eq (pd_of rs) [] [mkhstep HIv w_ua w_ub; mkhstep HIv w_fa w_fb]) 1
  <> nth_error (run_memo cpython_eq (pd_of rs) [] [mkhstep HIv w_fa w_fb; mkhstep HIv w_ua w_ub]) 0.
Proof. intros []; vm_compute; discriminate. Qed.

(* the two occurrences of 2012-10-28T02:20 Europe/Paris (+02:00 then +01:00) share the tzinfo object: == compares the wall fields, the
   fold is not looked at; start 2012-10-27T23:20Z *)
Definition w_s := mkpdt 2012 10 27 23 20 0 0 0 true 1 1 true.
Definition w_e0 := mkpdt 2012 10 28 2 20 0 0 7200 true 3 3 true.
Definition w_e1 := mkpdt 2012 10 28 2 20 0 0 3600 true 3 3 true.

Lemma cpython_eq_memo_conflates_folds : forall rs,
  cpython_eq (w_s, w_e0) (w_s, w_e1) = true
  /\ run_memo cpython_eq (pd_of rs) [] [mkhstep HIv w_s w_e0; mkhstep HIv w_s w_e1]
     <> run_history rs [mkhstep HIv w_s w_e0; mkhstep HIv w_s w_e1].
Proof. intros []; split; vm_compute; try reflexivity; discriminate. Qed.

Lemma memo_keyed_by_equality_refuted : forall rs,
  cpython_eq (w_ua, w_ub) (w_fa, w_fb) = true /\
  nth_error (run_history rs [mkhstep HIv w_ua w_ub; mkhstep HIv w_fa w_fb]) 1
    = Some [[0; 0; 1; 0; 0; 0; 0; 0; 0; 1; 31]; [0; 2021; 4; 1; 3; 0; 0; 0]; [0; 0; -1; 0; 0; 0; 0; 0; 0; -1; -31]] /\
  nth_error (run_memo cpython_eq (pd_of rs) [] [mkhstep HIv w_ua w_ub; mkhstep HIv w_fa w_fb]) 1
    = Some [[0; 0; 1; 0; 3; 0; 0; 0; 0; 1; 31]; [0; 2021; 4; 4; 3; 0; 0; 0]; [0; 0; -1; 0; -3; 0; 0; 0; 0; -1; -31]].
Proof. intros rs. split; [exact witness_keys_equal|]. split; [rewrite witness_code; reflexivity | apply witness_memo]. Qed.
