(* Proofs/FloatRoundTripWide.v — companion of Proofs/FloatRoundTrip.v: the round trip beyond 2^33 seconds (inexact, bounded).

     Theorem td_roundtrip_31 / td_roundtrip_64 : |N| <= 315537897599999999 (the span datetime.min .. datetime.max) ->
        exists M, td_of_float_seconds (total_seconds N) = Ok M /\ |M - N| <= 31   (a fortiori 64).
     Theorem td_roundtrip_full : over the whole timedelta range (|days| <= 999999999) the unchecked value
        td_us_of_float_seconds (total_seconds N) is within 7813 us of N (the range check may then raise OverflowError).

   |x - N/10^6| <= 2^(k-54) for |N/10^6| < 2^k, modf exact, product error <= 2^-34, final rounding <= 1/2:
   |M - N| <= 10^6 * 2^(k-54) + 2^-34 + 1/2;   k = 39: 31.02 hence <= 31;   k = 47: 7813.00000000006 hence <= 7813. *)
From Coq Require Import ZArith Reals Lia Lra Bool.
From Coq Require Import Floats.SpecFloat.
From Flocq Require Import Core.Core IEEE754.BinarySingleNaN.
From PV Require Import Lib.PyBase Spec.TdFloat Proofs.TdFloatFacts Proofs.FloatRoundTripBase Proofs.FloatRoundTrip.
Open Scope Z_scope.

Lemma bpow_m14 : bpow radix2 (-14) = (/ 16384)%R.  Proof. reflexivity. Qed.
Lemma bpow_39 : bpow radix2 39 = 549755813888%R.  Proof. reflexivity. Qed.

(* the tail on any valid positive product: within 1/2 of it (ties included) *)
Lemma td_tail_near : forall sum m e, bounded64 m e = true ->
  exists w, td_tail sum (S754_finite false m e) = Ok (sum + w) /\
            (Rabs (IZR w - F2R (Float radix2 (Zpos m) e)) <= / 2)%R.
Proof.
  intros sum m e Hb. unfold td_tail.
  set (Pr := F2R (Float radix2 (Zpos m) e)) in *.
  rewrite sf_intpart_floor. fold Pr. simpl cond_neg. set (t := Zfloor Pr).
  pose proof (sf_frac_correct false m e Hb) as K. cbv zeta in K. fold Pr in K. fold t in K.
  destruct K as (Vl & Rl & Fl & Sl).
  pose proof (Zfloor_lb Pr) as LB. pose proof (Zfloor_ub Pr) as UB. fold t in LB, UB.
  destruct (sf_frac (S754_finite false m e)) as [s3|s3| |s3 m3 e3]; try discriminate.
  - simpl in Rl. exists t. split; [reflexivity|]. apply Rabs_le. lra.
  - simpl in Sl. subst s3. simpl in Vl.
    set (g := F2R (Float radix2 (Zpos m3) e3)) in *.
    assert (Eg : g = (Pr - IZR t)%R) by exact Rl.
    change (fabs (S754_finite false m3 e3)) with (S754_finite false m3 e3).
    destruct (feq (S754_finite false m3 e3) f_half) eqn:Q.
    + apply (feq_half_correct m3 e3 Vl) in Q. fold g in Q.
      destruct ((sum + t) mod 2 =? 1).
      * exists (t + 1). split; [f_equal; ring|]. rewrite plus_IZR. simpl (IZR 1). apply Rabs_le. lra.
      * exists (t + 0). split; [f_equal; ring|]. rewrite plus_IZR. simpl (IZR 0). apply Rabs_le. lra.
    + rewrite sf_round_away_mag_floor. fold g. simpl cond_neg.
      destruct (Rlt_dec g (/ 2)) as [L|L].
      * rewrite (Zfloor_imp 0) by (simpl; lra).
        exists (t + 0). split; [f_equal; ring|]. rewrite plus_IZR. simpl (IZR 0). apply Rabs_le. lra.
      * rewrite (Zfloor_imp 1) by (simpl; lra).
        exists (t + 1). split; [f_equal; ring|]. rewrite plus_IZR. simpl (IZR 1). apply Rabs_le. lra.
Qed.

(* timedelta(seconds=x) for any valid positive double below 2^53: within 1/2 + 2^-34 of 10^6 x *)
Lemma td_us_pos_near : forall m e, bounded64 m e = true ->
  let X := F2R (Float radix2 (Zpos m) e) in
  exists M, td_us_of_float_seconds (S754_finite false m e) = Ok M /\
            (Rabs (IZR M - 1000000 * X) <= / 2 + / 2 * bpow radix2 (-33))%R.
Proof.
  intros m e Hb X. rewrite td_us_finite_unfold. cbv zeta.
  rewrite sf_intpart_floor. fold X. simpl cond_neg. set (I := Zfloor X).
  pose proof (Zfloor_lb X) as LB. pose proof (Zfloor_ub X) as UB. fold I in LB, UB.
  pose proof (sf_frac_correct false m e Hb) as K. cbv zeta in K. fold X in K. fold I in K.
  destruct K as (Vf & Rf & Ff & Sf).
  set (g := (X - IZR I)%R) in *.
  assert (Hg : (0 <= g < 1)%R) by (unfold g; lra).
  rewrite bpow_m33.
  destruct (Req_dec g 0) as [G0|G0].
  - rewrite (classify_zero _ Ff) by (rewrite Rf; exact G0).
    exists (I * US_PER_SEC). split; [reflexivity|]. unfold US_PER_SEC. rewrite mult_IZR.
    apply Rabs_le. unfold g in G0. lra.
  - destruct (classify_finite _ Ff ltac:(rewrite Rf; exact G0) Vf) as (m1 & e1 & E1 & B1).
    rewrite Sf in E1. rewrite E1. simpl sf_is_zero. cbv iota. rewrite E1 in Rf. simpl in Rf.
    set (P := (1000000 * g)%R) in *.
    assert (HP : (Rabs P < bpow radix2 20)%R) by (rewrite bpow_20; apply Rabs_lt; unfold P; lra).
    pose proof (RN_error P 20 ltac:(lia) HP) as EP. simpl (20 - 53) in EP. rewrite bpow_m33 in EP.
    apply Rabs_le_inv in EP.
    pose proof (fmul_1e6_correct false m1 e1 B1) as Mu. cbv zeta in Mu. simpl cond_Zopp in Mu. rewrite Rf in Mu. fold P in Mu.
    destruct Mu as (Vp & Rp & Fp & Sp).
    { rewrite bpow_60. apply Rabs_lt. unfold P in *. lra. }
    destruct (Req_dec (RN P) 0) as [Z0|Z0].
    + (* the product underflows to zero (cannot happen, but costs nothing to cover) *)
      pose proof (classify_zero _ Fp ltac:(rewrite Rp; exact Z0)) as Zp.
      destruct (fmul f_1e6 (S754_finite false m1 e1)) as [sp|sp| |sp mp ep]; try discriminate.
      exists (I * US_PER_SEC + 0). split; [reflexivity|]. unfold US_PER_SEC. rewrite plus_IZR, mult_IZR.
      simpl (IZR 0). apply Rabs_le. unfold P, g in *. lra.
    + destruct (classify_finite _ Fp ltac:(rewrite Rp; exact Z0) Vp) as (m2 & e2 & E2 & B2).
      rewrite Sp in E2. rewrite E2. rewrite E2 in Rp. simpl in Rp.
      destruct (td_tail_near (I * US_PER_SEC) m2 e2 B2) as (w & Hw & Ew).
      exists (I * US_PER_SEC + w). split; [exact Hw|]. rewrite Rp in Ew. apply Rabs_le_inv in Ew.
      unfold US_PER_SEC. rewrite plus_IZR, mult_IZR. apply Rabs_le. unfold P, g in *. lra.
Qed.

(* ------------------------------------------------------------------ generic bound, N > 0, N / 10^6 < 2^k *)
Lemma td_us_roundtrip_near_pos : forall N k, 0 < N -> 0 <= k <= 59 -> (IZR N / 1000000 < bpow radix2 k)%R ->
  exists M, td_us_of_float_seconds (total_seconds N) = Ok M /\
    (Rabs (IZR M - IZR N) <= 1000000 * (/ 2 * bpow radix2 (k - 53)) + (/ 2 + / 2 * bpow radix2 (-33)))%R.
Proof.
  intros N k HN Hk Hq0. destruct N as [|p|p]; try lia.
  set (q := (IZR (Z.pos p) / 1000000)%R) in *.
  assert (Hq : (0 < q)%R).
  { unfold q. assert (H1 : 0 < Z.pos p) by lia. apply IZR_lt in H1. lra. }
  assert (Hq' : (Rabs q < bpow radix2 k)%R) by (apply Rabs_lt; lra).
  pose proof (RN_error q k ltac:(lia) Hq') as Eq.
  set (err := (/ 2 * bpow radix2 (k - 53))%R) in *.
  assert (Herr : (0 <= err <= 32)%R).
  { unfold err. split; [apply Rmult_le_pos; [lra | apply bpow_ge_0]|].
    assert (bpow radix2 (k - 53) <= bpow radix2 6)%R by (apply bpow_le; lia).
    change (bpow radix2 6) with 64%R in H. lra. }
  assert (Hk60 : (bpow radix2 k <= bpow radix2 59)%R) by (apply bpow_le; lia).
  change (bpow radix2 59) with 576460752303423488%R in Hk60.
  apply Rabs_le_inv in Eq.
  pose proof (fdiv_ratio_correct false p 1000000) as D. cbv zeta in D. fold q in D.
  destruct D as (Vx & Rx & Fx & Sx). { rewrite bpow_60. apply Rabs_lt. lra. }
  change (fdiv (S754_finite false p 0) (S754_finite false 1000000 0)) with (total_seconds (Z.pos p)) in *.
  assert (EN : IZR (Z.pos p) = (1000000 * q)%R) by (unfold q; field).
  rewrite bpow_m33.
  destruct (Req_dec (RN q) 0) as [Z0|Z0].
  - pose proof (classify_zero _ Fx ltac:(rewrite Rx; exact Z0)) as Zx.
    destruct (total_seconds (Z.pos p)) as [sx|sx| |sx mx ex]; try discriminate.
    exists 0. split; [reflexivity|]. rewrite EN. simpl (IZR 0). apply Rabs_le. lra.
  - destruct (classify_finite _ Fx ltac:(rewrite Rx; exact Z0) Vx) as (m & e & E & B).
    rewrite Sx in E. rewrite E. rewrite E in Rx. simpl in Rx.
    destruct (td_us_pos_near m e B) as (M & HM & EM). cbv zeta in EM. rewrite Rx, bpow_m33 in EM.
    apply Rabs_le_inv in EM.
    exists M. split; [exact HM|]. rewrite EN. apply Rabs_le. lra.
Qed.

Lemma td_us_roundtrip_near : forall k B, 0 <= k <= 59 -> 0 <= B ->
  (1000000 * (/ 2 * bpow radix2 (k - 53)) + (/ 2 + / 2 * bpow radix2 (-33)) < IZR (B + 1))%R ->
  forall N, (IZR (Z.abs N) / 1000000 < bpow radix2 k)%R ->
  exists M, td_us_of_float_seconds (total_seconds N) = Ok M /\ Z.abs (M - N) <= B.
Proof.
  intros k B Hk HB Hbound N HN.
  assert (Pos : forall P, 0 < P -> (IZR P / 1000000 < bpow radix2 k)%R ->
                exists M, td_us_of_float_seconds (total_seconds P) = Ok M /\ Z.abs (M - P) <= B).
  { intros P HP HPq. destruct (td_us_roundtrip_near_pos P k HP Hk HPq) as (M & HM & EM).
    exists M. split; [exact HM|]. apply Rabs_le_inv in EM.
    assert (- (B + 1) < M - P < B + 1); [|lia].
    apply Z_of_R_sandwich; rewrite minus_IZR, ?opp_IZR; lra. }
  destruct (Z.lt_trichotomy N 0) as [L|[->|G]].
  - rewrite Z.abs_neq in HN by lia.
    destruct (Pos (- N) ltac:(lia) HN) as (M & HM & EM).
    exists (- M). split; [|lia].
    replace N with (- (- N)) at 1 by ring. rewrite total_seconds_opp by lia.
    rewrite td_us_of_float_seconds_opp, HM. reflexivity.
  - exists 0. split; [reflexivity | simpl; lia].
  - rewrite Z.abs_eq in HN by lia. apply Pos; [lia | exact HN].
Qed.

(* ------------------------------------------------------------------ 4. the span of datetime: |N| <= 315537897599999999 *)
Definition SPAN_MAX_US : Z := 315537897599999999.   (* (datetime.max - datetime.min) in microseconds *)

Theorem td_us_roundtrip_31 : forall N, Z.abs N <= SPAN_MAX_US ->
  exists M, td_us_of_float_seconds (total_seconds N) = Ok M /\ Z.abs (M - N) <= 31.
Proof.
  intros N HN. unfold SPAN_MAX_US in HN. apply (td_us_roundtrip_near 39 31); [lia | lia | |].
  - simpl (39 - 53). rewrite bpow_m14, bpow_m33. simpl (IZR (31 + 1)). lra.
  - rewrite bpow_39. assert (H : Z.abs N < 315537897600000000) by lia. apply IZR_lt in H. lra.
Qed.

Theorem td_roundtrip_31 : forall N, Z.abs N <= SPAN_MAX_US ->
  exists M, td_of_float_seconds (total_seconds N) = Ok M /\ Z.abs (M - N) <= 31.
Proof.
  intros N HN. destruct (td_us_roundtrip_31 N HN) as (M & HM & EM).
  exists M. split; [|exact EM]. unfold td_of_float_seconds. rewrite HM. cbn [bind].
  assert (R : td_in_range M = true).
  { unfold SPAN_MAX_US in HN. unfold td_in_range, US_PER_DAY, TD_MAX_DAYS. lia. }
  now rewrite R.
Qed.

Corollary td_roundtrip_64 : forall N, Z.abs N <= 315537897599999999 ->
  exists M, td_of_float_seconds (total_seconds N) = Ok M /\ Z.abs (M - N) <= 64.
Proof. intros N HN. destruct (td_roundtrip_31 N HN) as (M & HM & EM). exists M. split; [exact HM | lia]. Qed.

(* ------------------------------------------------------------------ the whole timedelta range *)
Lemma bpow_m6 : bpow radix2 (-6) = (/ 64)%R.  Proof. reflexivity. Qed.
Lemma bpow_47 : bpow radix2 47 = 140737488355328%R.  Proof. reflexivity. Qed.

Theorem td_roundtrip_full : forall N, td_in_range N = true ->
  exists M, td_us_of_float_seconds (total_seconds N) = Ok M /\ Z.abs (M - N) <= 7813.
Proof.
  intros N HN. unfold td_in_range, US_PER_DAY, TD_MAX_DAYS in HN.
  assert (HN' : Z.abs N < 86400000000000000000) by lia.
  apply (td_us_roundtrip_near 47 7813); [lia | lia | |].
  - simpl (47 - 53). rewrite bpow_m6, bpow_m33. simpl (IZR (7813 + 1)). lra.
  - rewrite bpow_47. apply IZR_lt in HN'. lra.
Qed.

(* the deviation is real: one microsecond already at 2^33 s + 1 us (cf. roundtrip_beyond_2_33_refuted in C09Facts.v) *)
Lemma td_roundtrip_inexact_beyond_2_33 : td_of_float_seconds (total_seconds 8589934592000001) = Ok 8589934592000002.
Proof. vm_compute. reflexivity. Qed.

(* ... and the range check can fail after the round trip: timedelta(seconds=timedelta.max.total_seconds()) raises OverflowError *)
Lemma td_roundtrip_overflow_at_max :
  td_in_range 86399999999999999999 = true /\ td_of_float_seconds (total_seconds 86399999999999999999) = Raise E_OverflowError.
Proof. split; vm_compute; reflexivity. Qed.

Print Assumptions td_roundtrip_31.
Print Assumptions td_roundtrip_full.
