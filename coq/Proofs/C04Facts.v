(* Proofs/C04Facts.v — calendar-unit arithmetic (C04): helpers.add_duration (translated) is month arithmetic + end-of-month clamp +
   exact wall shift for ALL integer amounts; DateTime.add / subtract / + / - and the Date counterparts on top of it. *)
From Coq Require Import ZArith List Bool Lia ZifyBool.
From PV Require Import Lib.PyBase Spec.Cal Spec.Zone Spec.NativeDT Proofs.CalFacts Proofs.ZoneFacts Proofs.AddDurationFacts Proofs.C02Facts Proofs.C03Facts.
From Coq Require Import Floats.SpecFloat.
From PV Require Import Spec.TdFloat Gen.Constants Gen.Helpers Gen.AddDuration Model.TzConvert Model.Duration Model.CalendarArith.
Import ListNotations.
Ltac Zify.zify_post_hook ::= Z.to_euclidean_division_equations.
Open Scope Z_scope.

(* ------------------------------------------------------------------ the specification side *)
(* fields of a wall value *)
Definition w_year (W : Z) : Z := ndt_year (mkndt W true).
Definition w_month (W : Z) : Z := ndt_month (mkndt W true).
Definition w_day (W : Z) : Z := ndt_day (mkndt W true).
Definition w_tod (W : Z) : Z := W mod us_per_day.

(* end-of-month clamping *)
Definition clamp_day (y m d : Z) : Z := Z.min (dim y m) d.

(* step 1: years and months as months-since-epoch arithmetic, day clamped to the target month, time of day kept *)
Definition ym_shift (W Y M : Z) : result Z :=
  let '(y', m') := ym_add (w_year W) (w_month W) (12 * Y + M) in
  if (1 <=? y') && (y' <=? 9999)
  then Ok ((ymd2ord y' m' (clamp_day y' m' (w_day W)) - 1) * us_per_day + w_tod W)
  else Raise E_ValueError.

(* step 2: the remaining amount T (microseconds) on the wall clock; a date moves by whole days (floor) *)
Definition wall_shift (isdt : bool) (W1 T : Z) : result Z :=
  if (T / us_per_day <? -999999999) || (999999999 <? T / us_per_day) then Raise E_OverflowError else
  let W2 := if isdt then W1 + T else W1 + T / us_per_day * us_per_day in
  if wall_in_range W2 then Ok W2 else Raise E_OverflowError.

Definition cal_target (isdt : bool) (W Y M T : Z) : result Z :=
  match ym_shift W Y M with
  | Raise e => Raise e
  | Ok W1 => wall_shift isdt W1 T
  end.

Definition cal_spec (W : Z) (isdt : bool) (Y M Wk D h m s us : Z) : result ndt :=
  if negb isdt && (negb (h =? 0) || negb (m =? 0) || negb (s =? 0) || negb (us =? 0)) then Raise E_RuntimeError else
  match cal_target isdt W Y M (td_total_us (D + 7 * Wk) h m s us) with
  | Raise e => Raise e
  | Ok W' => Ok (mkndt W' isdt)
  end.

Lemma ym_add_month y m k : 1 <= snd (ym_add y m k) <= 12.
Proof. unfold ym_add. cbn [snd]. lia. Qed.

(* ym_add is arithmetic on the month index 12*year + (month-1): it adds k to the index, composes additively, 0 is neutral *)
Lemma ym_add_arith y m a b : 1 <= m <= 12 ->
  ym_add y m 0 = (y, m) /\
  (let '(y1, m1) := ym_add y m a in ym_add y1 m1 b) = ym_add y m (a + b) /\
  (let '(y1, m1) := ym_add y m a in 12 * y1 + (m1 - 1) = 12 * y + (m - 1) + a /\ 1 <= m1 <= 12).
Proof.
  intros Hm. unfold ym_add. repeat split; try (f_equal; lia); lia.
Qed.

(* the translated function = the specification, for every integer amount *)
Lemma add_duration_cal W isdt Y M Wk D h m s us : wall_in_range W = true ->
  py_add_duration (mkndt W isdt) Y M Wk D h m s us = cal_spec W isdt Y M Wk D h m s us.
Proof.
  intros Hr. rewrite py_add_duration_unfold. unfold add_duration_spec, cal_spec. cbn [n_isdt].
  destruct (negb isdt && _); [reflexivity|].
  pose proof (norm_parts_total Wk D h m s us) as NT.
  destruct (norm_parts Wk D h m s us) as [[[[dd hh] mm] ss] uu].
  destruct (fields_in_range W Hr) as [Hy [Hv Hw]]. cbv zeta in Hy, Hv, Hw.
  change (ndt_year (mkndt W isdt)) with (w_year W). change (ndt_month (mkndt W isdt)) with (w_month W).
  change (ndt_day (mkndt W isdt)) with (w_day W).
  change (ndt_year (mkndt W true)) with (w_year W) in *. change (ndt_month (mkndt W true)) with (w_month W) in *.
  change (ndt_day (mkndt W true)) with (w_day W) in *.
  pose proof (proj1 (valid_dateb_true _ _ _) Hv) as [Hm Hd].
  rewrite ym_step_spec by lia.
  unfold cal_target, ym_shift.
  pose proof (ym_add_month (w_year W) (w_month W) (12 * Y + M)) as Hm'.
  destruct (ym_add (w_year W) (w_month W) (12 * Y + M)) as [y' m'] eqn:E. cbn [snd] in Hm'.
  rewrite days_per_months_dim by lia. fold (clamp_day y' m' (w_day W)).
  assert (Hv' : valid_dateb y' m' (clamp_day y' m' (w_day W)) = true).
  { apply valid_dateb_true. unfold clamp_day. pose proof (dim_bounds y' m'). lia. }
  unfold ndt_replace_ymd. rewrite Hv'. rewrite andb_true_r.
  destruct ((1 <=? y') && (y' <=? 9999)); [|reflexivity].
  unfold ndt_add_td, wall_shift. cbn [n_isdt n_wall].
  change (ndt_tod (mkndt W isdt)) with (w_tod W).
  replace (td_total_us dd hh mm ss uu) with (td_total_us (D + 7 * Wk) h m s us)
    by (rewrite NT; unfold td_total_us; lia).
  destruct (_ || _); [reflexivity|].
  clear Hr. destruct isdt; match goal with |- context [wall_in_range ?x] => destruct (wall_in_range x) end; reflexivity.
Qed.

(* ------------------------------------------------------------------ the year/month step: fields of the result (clamp_spec) *)
Lemma ymd2ord_year_bounds y m d : 1 <= y <= 9999 -> valid_dateb y m d = true -> 1 <= ymd2ord y m d <= 3652059.
Proof.
  intros Hy V. split.
  - pose proof (yday_bounds y m d V). pose proof (days_before_year_mono 1 y ltac:(lia)).
    change (days_before_year 1) with 0 in H0. unfold ymd2ord. lia.
  - assert (V1 : valid_dateb 10000 1 1 = true) by reflexivity.
    pose proof (ymd2ord_lt y m d 10000 1 1 V V1 ltac:(lia)). rewrite ymd2ord_10000 in H. lia.
Qed.

Lemma us_per_day_val : us_per_day = 86400000000. Proof. reflexivity. Qed.

Lemma ym_shift_fields W Y M W1 : wall_in_range W = true -> ym_shift W Y M = Ok W1 ->
  let '(y', m') := ym_add (w_year W) (w_month W) (12 * Y + M) in
  1 <= y' <= 9999 /\ w_year W1 = y' /\ w_month W1 = m' /\ w_day W1 = Z.min (dim y' m') (w_day W) /\
  w_tod W1 = w_tod W /\ wall_in_range W1 = true.
Proof.
  intros Hr H. unfold ym_shift in H.
  destruct (fields_in_range W Hr) as [Hy [Hv Hw]]. cbv zeta in Hy, Hv, Hw.
  change (ndt_year (mkndt W true)) with (w_year W) in *. change (ndt_month (mkndt W true)) with (w_month W) in *.
  change (ndt_day (mkndt W true)) with (w_day W) in *.
  pose proof (proj1 (valid_dateb_true _ _ _) Hv) as [Hm Hd].
  pose proof (ym_add_month (w_year W) (w_month W) (12 * Y + M)) as Hm'.
  destruct (ym_add (w_year W) (w_month W) (12 * Y + M)) as [y' m'] eqn:E. cbn [snd] in Hm'.
  destruct ((1 <=? y') && (y' <=? 9999)) eqn:Ey; [|discriminate].
  assert (Hy' : 1 <= y' <= 9999) by lia.
  assert (Hv' : valid_dateb y' m' (clamp_day y' m' (w_day W)) = true).
  { apply valid_dateb_true. unfold clamp_day. pose proof (dim_bounds y' m'). lia. }
  pose proof (ymd2ord_year_bounds _ _ _ Hy' Hv') as Ho.
  injection H as H.
  assert (Ht : 0 <= w_tod W < us_per_day) by (unfold w_tod; rewrite us_per_day_val; lia).
  set (n := ymd2ord y' m' (clamp_day y' m' (w_day W))) in *.
  assert (Hq : W1 / us_per_day + 1 = n) by (rewrite us_per_day_val in *; lia).
  assert (Hf : ord2ymd (W1 / us_per_day + 1) = (y', m', clamp_day y' m' (w_day W))).
  { rewrite Hq. unfold n. apply ord2ymd_ymd2ord. exact Hv'. }
  unfold w_year, w_month, w_day, ndt_year, ndt_month, ndt_day, ndt_ord. cbn [n_wall].
  rewrite Hf. cbn [fst snd]. repeat split; try lia; try reflexivity.
  - unfold w_tod in *. rewrite us_per_day_val in *. lia.
  - apply wall_in_range_iff. rewrite us_per_day_val in *. lia.
Qed.

(* adding no years and no months leaves the wall value alone *)
Lemma ym_shift_zero W : wall_in_range W = true -> ym_shift W 0 0 = Ok W.
Proof.
  intros Hr. unfold ym_shift.
  destruct (fields_in_range W Hr) as [Hy [Hv Hw]]. cbv zeta in Hy, Hv, Hw.
  change (ndt_year (mkndt W true)) with (w_year W) in *. change (ndt_month (mkndt W true)) with (w_month W) in *.
  change (ndt_day (mkndt W true)) with (w_day W) in *. change (ndt_tod (mkndt W true)) with (w_tod W) in Hw.
  pose proof (proj1 (valid_dateb_true _ _ _) Hv) as [Hm Hd].
  assert (E : ym_add (w_year W) (w_month W) (12 * 0 + 0) = (w_year W, w_month W)) by (unfold ym_add; f_equal; lia).
  rewrite E. replace ((1 <=? w_year W) && (w_year W <=? 9999)) with true by lia.
  unfold clamp_day. rewrite Z.min_r by lia. rewrite Hw. reflexivity.
Qed.

(* ------------------------------------------------------------------ DateTime.add *)
Lemma dt_add_calendar z fx W f Y M Wk D h m s us : wall_in_range W = true -> any_cal Y M Wk D = true ->
  dt_add (Aware z fx) W f Y M Wk D h m s us =
  match cal_target true W Y M (td_total_us (D + 7 * Wk) h m s us) with
  | Raise e => Raise e
  | Ok W' => create z fx W' true false
  end.
Proof.
  intros Hr Hc. unfold dt_add. rewrite Hc. unfold add_calendar. rewrite add_duration_cal by exact Hr.
  unfold cal_spec. cbn [negb andb]. destruct (cal_target _ _ _ _ _); reflexivity.
Qed.

Lemma dt_add_naive W f Y M Wk D h m s us : wall_in_range W = true ->
  dt_add Naive W f Y M Wk D h m s us =
  match cal_target true W Y M (td_total_us (D + 7 * Wk) h m s us) with
  | Raise e => Raise e
  | Ok W' => Ok (W', true)
  end.
Proof.
  intros Hr. unfold dt_add, add_naive. rewrite add_duration_cal by exact Hr.
  unfold cal_spec. cbn [negb andb]. destruct (cal_target _ _ _ _ _); reflexivity.
Qed.

(* the C02 construction rules applied to the calendar target *)
Section Norm.
Variable z : zone.
Variables W Y M Wk D h m s us W' : Z.
Variable f : bool.
Hypothesis Hr : wall_in_range W = true.
Hypothesis Hc : any_cal Y M Wk D = true.
Hypothesis Ht : cal_target true W Y M (td_total_us (D + 7 * Wk) h m s us) = Ok W'.

Lemma add_calendar_unique_l : wf_zone z = true -> wall_unique z (sec W') ->
  dt_add (Aware z false) W f Y M Wk D h m s us = Ok (W', true) /\
  (forall u, renders_to z u (sec W') <-> u = sec W' - off_local z (sec W') true).
Proof.
  intros Hwf Hu. rewrite dt_add_calendar by assumption. rewrite Ht. unfold create, convert_naive_fixed.
  destruct (create_unique z W' true Hwf Hu false) as [H1 [H2 _]]. split; assumption.
Qed.

Lemma add_calendar_repeated_l : wf_zone z = true -> wall_repeated z (sec W') ->
  dt_add (Aware z false) W f Y M Wk D h m s us = Ok (W', true) /\
  inst z W' true = W' - MEG * off_local z (sec W') true /\
  sec W' - off_local z (sec W') false < sec W' - off_local z (sec W') true.
Proof.
  intros Hwf Hu. rewrite dt_add_calendar by assumption. rewrite Ht. unfold create.
  destruct (create_repeated z W' true Hwf Hu) as [H1 [_ [_ [H4 [H5 _]]]]]. repeat split; assumption.
Qed.

Lemma add_calendar_skipped_l : wf2_zone z = true -> wall_skipped z (sec W') ->
  let g := off_local z (sec W') true - off_local z (sec W') false in
  0 < g /\
  (wall_in_range (W' + MEG * g) = true -> dt_add (Aware z false) W f Y M Wk D h m s us = Ok (W' + MEG * g, false)) /\
  (wall_in_range (W' + MEG * g) = false -> dt_add (Aware z false) W f Y M Wk D h m s us = Raise E_OverflowError) /\
  (forall f', off_local z (sec W' + g) f' = off_local z (sec W') true) /\
  sec (W' + MEG * g) = sec W' + g.
Proof.
  intros Hwf Hs g. destruct (create_skipped z W' true Hwf Hs) as [H1 [H2 [_ [H4 [_ [H6 _]]]]]]. fold g in H1, H2, H4, H6.
  repeat split; try assumption.
  - intros Hin. rewrite dt_add_calendar by assumption. rewrite Ht. unfold create. apply H2. exact Hin.
  - intros Hout. rewrite dt_add_calendar by assumption. rewrite Ht. unfold create, convert_naive.
    unfold wall_skipped in Hs. fold g.
    destruct (off_local z (sec W') true >? off_local z (sec W') false) eqn:E; [|lia].
    replace (off_local z (sec W') true - off_local z (sec W') false) with g by reflexivity. rewrite Hout. reflexivity.
Qed.
End Norm.

Lemma add_calendar_fixed_l o W f Y M Wk D h m s us : wall_in_range W = true -> any_cal Y M Wk D = true ->
  dt_add (Aware (fixed_zone o) true) W f Y M Wk D h m s us =
  match cal_target true W Y M (td_total_us (D + 7 * Wk) h m s us) with
  | Raise e => Raise e
  | Ok W' => Ok (W', false)
  end.
Proof. intros Hr Hc. rewrite dt_add_calendar by assumption. destruct (cal_target _ _ _ _ _); reflexivity. Qed.

(* ------------------------------------------------------------------ subtract = add of the negation *)
Lemma add_neg_is_subtract_l k W f y mo wk d h m s us :
  dt_subtract k W f y mo wk d h m s us = dt_add k W f (- y) (- mo) (- wk) (- d) (- h) (- m) (- s) (- us) /\
  dt_add k W f y mo wk d h m s us = dt_subtract k W f (- y) (- mo) (- wk) (- d) (- h) (- m) (- s) (- us).
Proof. split; [reflexivity|]. unfold dt_subtract. rewrite !Z.opp_involutive. reflexivity. Qed.

(* ------------------------------------------------------------------ Date *)
Lemma date_add_spec_l W Y M Wk D : wall_in_range W = true ->
  date_add W Y M Wk D =
  match ym_shift W Y M with
  | Raise e => Raise e
  | Ok W1 =>
      let n := D + 7 * Wk in
      if (n <? -999999999) || (999999999 <? n) then Raise E_OverflowError
      else if wall_in_range (W1 + n * us_per_day) then Ok (W1 + n * us_per_day) else Raise E_OverflowError
  end.
Proof.
  intros Hr. unfold date_add. rewrite add_duration_cal by exact Hr. unfold cal_spec. cbn [negb andb Z.eqb orb].
  unfold cal_target. destruct (ym_shift W Y M) as [W1|e]; [|reflexivity].
  unfold wall_shift. cbv zeta.
  assert (E : td_total_us (D + 7 * Wk) 0 0 0 0 / us_per_day = D + 7 * Wk) by (unfold td_total_us; rewrite us_per_day_val; lia).
  rewrite E. clear Hr. destruct (_ || _); [reflexivity|].
  match goal with |- context [wall_in_range ?x] => destruct (wall_in_range x) end; reflexivity.
Qed.

(* a Date stays a date: midnight in, midnight out *)
Lemma date_add_midnight W Y M Wk D W' : wall_in_range W = true -> W mod us_per_day = 0 ->
  date_add W Y M Wk D = Ok W' -> W' mod us_per_day = 0.
Proof.
  intros Hr H0 H. rewrite date_add_spec_l in H by exact Hr. unfold ym_shift in H.
  destruct (ym_add _ _ _) as [y' m']. destruct (_ && _); [|discriminate]. cbv zeta in H.
  destruct (_ || _); [discriminate|]. clear Hr.
  match type of H with context [wall_in_range ?x] => destruct (wall_in_range x) end; [|discriminate]. injection H as <-.
  unfold w_tod. rewrite H0. rewrite us_per_day_val. lia.
Qed.

Lemma date_operators_l W op :
  date_add_timedelta W op =
    match op with
    | OpTd N => date_add W 0 0 0 (N / 86400000000)
    | OpDur d => date_add W (d_years d) (d_months d) (d_weeks d) (d_rdays d)
    | OpIv y mo wk rd _ _ _ _ _ => date_add W y mo wk rd
    end /\
  date_sub_timedelta W op =
    match op with
    | OpTd N => date_add W 0 0 0 (- (N / 86400000000))
    | OpDur d => date_add W (- d_years d) (- d_months d) (- d_weeks d) (- d_rdays d)
    | OpIv y mo wk rd _ _ _ _ _ => date_add W (- y) (- mo) (- wk) (- rd)
    end.
Proof. destruct op; split; reflexivity. Qed.

(* ------------------------------------------------------------------ dt + Duration = add of the _signature keywords *)
Lemma duration_new_sig days seconds us ms minutes hours weeks years months d :
  duration_new days seconds us ms minutes hours weeks years months = Ok d ->
  d_sig d = [years; months; weeks; days; hours; minutes; seconds; us + ms * 1000] /\ d_years d = years /\ d_months d = months.
Proof.
  unfold duration_new. destruct (td_of_int_args _ _ _ _ _ _ _) as [N|e]; cbn [bind]; [|discriminate].
  destruct (float_pipeline _ _) as [[total [[mm micro] it]]|e]; cbn [bind]; [|discriminate].
  intros H. injection H as <-. cbn [d_sig d_years d_months]. repeat split.
Qed.

Lemma plus_duration_sig k W f days seconds us ms minutes hours weeks years months d :
  duration_new days seconds us ms minutes hours weeks years months = Ok d ->
  dt_add_timedelta k W f (OpDur d) = dt_add k W f years months weeks days hours minutes seconds (us + ms * 1000).
Proof. intros H. destruct (duration_new_sig _ _ _ _ _ _ _ _ _ _ H) as [S _]. unfold dt_add_timedelta. rewrite S. reflexivity. Qed.

Lemma plus_interval_components_l k W f y mo wk rd h mi rs us total :
  dt_add_timedelta k W f (OpIv y mo wk rd h mi rs us total) = dt_add k W f y mo wk rd h mi rs us.
Proof. reflexivity. Qed.

(* ------------------------------------------------------------------ dt - d  versus  dt + (-d)  and  dt.subtract(components) *)
(* Europe/Paris around 2013 (seconds since 0001-01-01T00:00:00Z): +1 h, DST from 2013-03-31T01:00Z to 2013-10-27T01:00Z *)
Definition paris13 : zone := mkzone 3600 [(63500288400, 7200); (63518432400, 3600)].

(* --- the three routes agree (after the repair of _subtract_timedelta the operator passes the same components as subtract()).
   dur_rest_us: the weeks / remaining days / seconds / microseconds of a Duration as one amount of microseconds *)
Definition dur_rest_us (d : dur) : Z := td_total_us (d_rdays d + 7 * d_weeks d) 0 0 (d_seconds d) (d_micro d).

Lemma py_add_duration_total W Y M Wk D h m s us Wk' D' h' m' s' us' : wall_in_range W = true ->
  td_total_us (D + 7 * Wk) h m s us = td_total_us (D' + 7 * Wk') h' m' s' us' ->
  py_add_duration (mkndt W true) Y M Wk D h m s us = py_add_duration (mkndt W true) Y M Wk' D' h' m' s' us'.
Proof. intros Hr E. rewrite !add_duration_cal by exact Hr. unfold cal_spec. cbn [negb andb]. rewrite E. reflexivity. Qed.

Lemma dur_neg_sig d nd : dur_neg d = Ok nd ->
  d_sig nd = [- d_years d; - d_months d; - d_weeks d; - d_rdays d; 0; 0; - d_seconds d; - d_micro d + 0 * 1000].
Proof. unfold dur_neg. intros H. apply duration_new_sig in H. tauto. Qed.

Lemma any_cal_false y mo wk dd : any_cal y mo wk dd = false <-> (y = 0 /\ mo = 0 /\ wk = 0 /\ dd = 0).
Proof. unfold any_cal, nz. lia. Qed.

(* equal calendar arguments and equal totals of the time arguments: same result (every route) *)
Lemma dt_add_total k W f Y M Wk D h m s us h' m' s' us' : wall_in_range W = true ->
  td_total_us 0 h m s us = td_total_us 0 h' m' s' us' ->
  dt_add k W f Y M Wk D h m s us = dt_add k W f Y M Wk D h' m' s' us'.
Proof.
  intros Hr E.
  assert (E2 : td_total_us (D + 7 * Wk) h m s us = td_total_us (D + 7 * Wk) h' m' s' us') by (unfold td_total_us in *; lia).
  destruct k as [|z fx]; unfold dt_add.
  - unfold add_naive. rewrite (py_add_duration_total W Y M Wk D h m s us Wk D h' m' s' us' Hr E2). reflexivity.
  - destruct (any_cal Y M Wk D).
    + unfold add_calendar. rewrite (py_add_duration_total W Y M Wk D h m s us Wk D h' m' s' us' Hr E2). reflexivity.
    + unfold add_fixed. destruct (wall_in_range (inst z W f)) eqn:Eu; [|reflexivity]. cbn [negb].
      rewrite (py_add_duration_total (inst z W f) 0 0 0 0 h m s us 0 0 h' m' s' us' Eu E). reflexivity.
Qed.

(* the lazy hours / minutes / remaining_seconds accessors split the seconds component *)
Lemma dur_hms_sum d : Z.abs (d_seconds d) < 86400 ->
  dur_hours d * 3600 + dur_minutes d * 60 + dur_remaining_seconds d = d_seconds d.
Proof.
  intros H. unfold dur_hours, dur_minutes, dur_remaining_seconds, d_sign.
  destruct (3600 <=? Z.abs (d_seconds d)) eqn:E1; destruct (60 <=? Z.abs (d_seconds d)) eqn:E2;
  destruct (d_seconds d <? 0) eqn:E3; lia.
Qed.

(* dt + (-d) = dt.subtract(components of d): ALWAYS (both go through add with the same calendar arguments) *)
Lemma sub_components_eq_plus_neg_l k W f d : wall_in_range W = true -> Z.abs (d_seconds d) < 86400 ->
  dt_plus_neg k W f d = bind (dur_neg d) (fun _ => dt_sub_components k W f d).
Proof.
  intros Hr Hs. unfold dt_plus_neg. destruct (dur_neg d) as [nd|e] eqn:Hn; [|reflexivity]. cbn [bind].
  unfold dt_add_timedelta, dt_sub_components, dt_subtract. rewrite (dur_neg_sig _ _ Hn).
  apply dt_add_total; [exact Hr|]. pose proof (dur_hms_sum d Hs). unfold td_total_us. lia.
Qed.

(* every Duration built by the constructor has |_seconds| < 86400 (the hypothesis of dur_hms_sum) *)
Lemma split_total_sign total m micro it : split_total total = Ok (m, micro, it) -> m = -1 \/ m = 1.
Proof.
  unfold split_total. destruct (flt total f_zero);
  (destruct (py_float_mod _ _); cbn [bind]; [|discriminate]);
  (destruct (py_round_half_even _); cbn [bind]; [|discriminate]);
  (destruct (py_int_trunc _); cbn [bind]; [|discriminate]); intros H; injection H as <- _ _; auto.
Qed.

Lemma duration_new_seconds_bound days seconds us ms minutes hours weeks years months d :
  duration_new days seconds us ms minutes hours weeks years months = Ok d -> Z.abs (d_seconds d) < 86400.
Proof.
  unfold duration_new. destruct (td_of_int_args _ _ _ _ _ _ _) as [N|e]; cbn [bind]; [|discriminate].
  unfold float_pipeline. destruct (py_float_of_int _) as [fy|e]; cbn [bind]; [|discriminate].
  destruct (split_total _) as [[[m micro] it]|e] eqn:Es; cbn [bind]; [|discriminate].
  intros H. injection H as <-. cbn [d_seconds]. apply split_total_sign in Es.
  change C_SECONDS_PER_DAY with 86400. destruct Es; subst m; lia.
Qed.

(* dt - d = dt.subtract(components of d) = dt + (-d), for EVERY Duration, zone kind and wall value.
   `-d` is a new Duration (dur_neg; its construction can itself raise OverflowError when the negated value is not a timedelta):
   once it exists, adding it is exactly the subtraction. *)
Lemma sub_duration_eq_add_neg_l k W f d : wall_in_range W = true -> Z.abs (d_seconds d) < 86400 ->
  dt_sub_timedelta k W f (OpDur d) = dt_sub_components k W f d /\
  dt_plus_neg k W f d = bind (dur_neg d) (fun _ => dt_sub_timedelta k W f (OpDur d)) /\
  (forall nd, dur_neg d = Ok nd -> dt_sub_timedelta k W f (OpDur d) = dt_add_timedelta k W f (OpDur nd)).
Proof.
  intros Hr Hs. split; [reflexivity|].
  pose proof (sub_components_eq_plus_neg_l k W f d Hr Hs) as H. split; [exact H|].
  intros nd Hn. unfold dt_plus_neg in H. rewrite Hn in H. cbn [bind] in H. symmetry. exact H.
Qed.

Lemma sub_duration_eq_add_neg_new k W f days seconds us ms minutes hours weeks years months d :
  wall_in_range W = true -> duration_new days seconds us ms minutes hours weeks years months = Ok d ->
  dt_sub_timedelta k W f (OpDur d) = dt_sub_components k W f d /\
  dt_plus_neg k W f d = bind (dur_neg d) (fun _ => dt_sub_timedelta k W f (OpDur d)) /\
  (forall nd, dur_neg d = Ok nd -> dt_sub_timedelta k W f (OpDur d) = dt_add_timedelta k W f (OpDur nd)).
Proof. intros Hr Hd. apply sub_duration_eq_add_neg_l; [exact Hr|]. exact (duration_new_seconds_bound _ _ _ _ _ _ _ _ _ _ Hd). Qed.

(* an Interval operand: the operator subtracts the Interval's components once, which is adding the negated components
   (the components of the reversed Interval -iv) *)
Lemma sub_interval_eq_add_neg_l k W f y mo wk rd h mi rs us total :
  dt_sub_timedelta k W f (OpIv y mo wk rd h mi rs us total) = dt_subtract k W f y mo wk rd h mi rs us /\
  dt_sub_timedelta k W f (OpIv y mo wk rd h mi rs us total) =
  dt_add_timedelta k W f (OpIv (- y) (- mo) (- wk) (- rd) (- h) (- mi) (- rs) (- us) (fopp total)).
Proof. split; reflexivity. Qed.

(* consequently `dt - d` moves years, months, weeks and days on the WALL clock: with any calendar component it is the C02
   normalisation of the calendar target of the negated amounts (it no longer goes through UTC) *)
Lemma minus_duration_wall_clock_l z fx W f d : wall_in_range W = true -> Z.abs (d_seconds d) < 86400 ->
  any_cal (d_years d) (d_months d) (d_weeks d) (d_rdays d) = true ->
  dt_sub_timedelta (Aware z fx) W f (OpDur d) =
  match cal_target true W (- d_years d) (- d_months d) (- dur_rest_us d) with
  | Raise e => Raise e
  | Ok W' => create z fx W' true false
  end.
Proof.
  intros Hr Hs Hc. unfold dt_sub_timedelta, dt_sub_components, dt_subtract.
  rewrite dt_add_calendar; [|exact Hr|unfold any_cal, nz in *; lia].
  pose proof (dur_hms_sum d Hs) as E.
  replace (td_total_us (- d_rdays d + 7 * - d_weeks d) (- dur_hours d) (- dur_minutes d) (- dur_remaining_seconds d) (- d_micro d))
    with (- dur_rest_us d) by (unfold dur_rest_us, td_total_us; lia).
  reflexivity.
Qed.

(* the inputs that used to fail (findings sub-duration-elapsed and sub-interval-double-count, both repaired):
   2013-03-31T12:00 Europe/Paris minus Duration(days=1) is 12:00 on the 30th by all three routes (it was 11:00 by the operator);
   2021-03-05T06:00Z minus (that - 2020-01-01T00:00Z) is 2020-01-01T00:00Z (it was 2018-11-02) *)
Lemma sub_duration_former_witness :
  exists d, duration_new 1 0 0 0 0 0 0 0 0 = Ok d /\ wf2_zone paris13 = true /\
    wall_of 2013 3 31 12 0 0 0 - MEG * off_local paris13 (sec (wall_of 2013 3 31 12 0 0 0)) false - dur_rest_us d
      <> wall_of 2013 3 30 12 0 0 0 - MEG * off_local paris13 (sec (wall_of 2013 3 30 12 0 0 0)) true /\
    dt_sub_timedelta (Aware paris13 false) (wall_of 2013 3 31 12 0 0 0) false (OpDur d) = Ok (wall_of 2013 3 30 12 0 0 0, true) /\
    dt_plus_neg (Aware paris13 false) (wall_of 2013 3 31 12 0 0 0) false d = Ok (wall_of 2013 3 30 12 0 0 0, true) /\
    dt_sub_components (Aware paris13 false) (wall_of 2013 3 31 12 0 0 0) false d = Ok (wall_of 2013 3 30 12 0 0 0, true).
Proof.
  destruct (duration_new 1 0 0 0 0 0 0 0 0) as [d|e] eqn:E; [|vm_compute in E; discriminate].
  exists d. split; [reflexivity|]. split; [reflexivity|].
  vm_compute in E. injection E as <-. split; [vm_compute; discriminate|]. repeat split; vm_compute; reflexivity.
Qed.

Lemma sub_interval_former_witness :
  let z := mkzone 0 [] in
  let W := wall_of 2021 3 5 6 0 0 0 in
  dt_sub_timedelta (Aware z false) W false (OpIv 1 2 0 4 6 0 0 0 (sf_of_Z 37087200)) = Ok (wall_of 2020 1 1 0 0 0 0, true) /\
  dt_add_timedelta (Aware z false) W false (OpIv (-1) (-2) 0 (-4) (-6) 0 0 0 (sf_of_Z (-37087200))) = Ok (wall_of 2020 1 1 0 0 0 0, true) /\
  wall_of 2021 3 5 6 0 0 0 - wall_of 2020 1 1 0 0 0 0 = 37087200 * 1000000.
Proof. repeat split; vm_compute; reflexivity. Qed.

(* the hypotheses of minus_duration_wall_clock_l are satisfiable: Duration(weeks=2, days=3, seconds=7261, microseconds=500000) *)
Example wall_clock_hyps : exists d, duration_new 3 7261 500000 0 0 0 2 0 0 = Ok d /\ Z.abs (d_seconds d) < 86400 /\
  any_cal (d_years d) (d_months d) (d_weeks d) (d_rdays d) = true /\ dur_rest_us d = (17 * 86400 + 7261) * 1000000 + 500000.
Proof.
  destruct (duration_new 3 7261 500000 0 0 0 2 0 0) as [d|e] eqn:E; [|vm_compute in E; discriminate].
  exists d. split; [reflexivity|]. vm_compute in E. injection E as <-. repeat split; vm_compute; reflexivity.
Qed.

(* ------------------------------------------------------------------ concrete instances (non-vacuity, documentation) *)
Example clamp_examples :
  dt_add Naive (wall_of 2023 1 31 10 0 0 0) false 0 1 0 0 0 0 0 0 = Ok (wall_of 2023 2 28 10 0 0 0, true) /\
  dt_add Naive (wall_of 2024 1 31 10 0 0 0) false 0 1 0 0 0 0 0 0 = Ok (wall_of 2024 2 29 10 0 0 0, true) /\
  dt_add Naive (wall_of 2024 2 29 10 0 0 0) false 1 0 0 0 0 0 0 0 = Ok (wall_of 2025 2 28 10 0 0 0, true) /\
  dt_add Naive (wall_of 2023 3 31 10 0 0 0) false 0 (-13) 0 0 0 0 0 0 = Ok (wall_of 2022 2 28 10 0 0 0, true) /\
  dt_add Naive (wall_of 2023 12 31 0 0 0 0) false 0 14 0 1 0 0 0 0 = Ok (wall_of 2025 3 1 0 0 0 0, true) /\
  dt_add Naive (wall_of 9999 12 31 0 0 0 0) false 0 1 0 0 0 0 0 0 = Raise E_ValueError /\
  dt_add Naive (wall_of 9999 12 31 0 0 0 0) false 0 0 0 1 0 0 0 0 = Raise E_OverflowError /\
  date_add (wall_of 2023 1 31 0 0 0 0) 0 1 0 0 = Ok (wall_of 2023 2 28 0 0 0 0).
Proof. repeat split; vm_compute; reflexivity. Qed.

(* calendar results in a gap / an overlap of Europe/Paris 2013 *)
Example dst_examples :
  wall_skipped paris13 (sec (wall_of 2013 3 31 2 30 0 0)) /\
  dt_add (Aware paris13 false) (wall_of 2013 3 30 2 30 0 0) false 0 0 0 1 0 0 0 0 = Ok (wall_of 2013 3 31 3 30 0 0, false) /\
  wall_repeated paris13 (sec (wall_of 2013 10 27 2 30 0 0)) /\
  dt_add (Aware paris13 false) (wall_of 2013 9 27 2 30 0 0) false 0 1 0 0 0 0 0 0 = Ok (wall_of 2013 10 27 2 30 0 0, true) /\
  off_local paris13 (sec (wall_of 2013 10 27 2 30 0 0)) true = 3600.
Proof. repeat split; vm_compute; reflexivity. Qed.
