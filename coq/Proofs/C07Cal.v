(* Proofs/C07Cal.v — calendrical core of C07: ordinal dates and ISO week dates, both backends, every year. *)
From Coq Require Import ZArith List Bool Lia ZifyBool.
From PV Require Import Lib.Reflect Lib.PyBase Spec.Cal Proofs.CalFacts Proofs.C15Facts.
From PV Require Import Gen.Constants Gen.Helpers Gen.RustConstants Model.RustHelpers Gen.IsoPost Model.IsoParse.
Import ListNotations.
Ltac Zify.zify_post_hook ::= Z.to_euclidean_division_equations.
Open Scope Z_scope.

(* ------------------------------------------------------------------ day of year -> date, reference side *)
Lemma ymd2ord_jan1' y : ymd2ord y 1 1 = days_before_year y + 1.
Proof. apply ymd2ord_jan1. Qed.

(* a (month, day) pair with the right day-of-year is THE date of that day of the year *)
Lemma yday_to_date y n m d :
  1 <= m <= 12 -> 1 <= d <= dim_l (is_leap y) m -> dbm_l (is_leap y) m + d = n ->
  ord2ymd (ymd2ord y 1 1 + n - 1) = (y, m, d).
Proof.
  intros Hm Hd E.
  replace (ymd2ord y 1 1 + n - 1) with (ymd2ord y m d).
  - apply ord2ymd_ymd2ord. apply valid_dateb_true. unfold dim. lia.
  - rewrite ymd2ord_jan1'. unfold ymd2ord, days_before_month. lia.
Qed.

Definition diy_l (l : bool) : Z := if l then 366 else 365.
Lemma days_in_year_l y : days_in_year y = diy_l (is_leap y).
Proof. reflexivity. Qed.

(* the reference md_of_yday, by reflection over (leap flag, day of year) *)
Definition md_ok (l : bool) (n : Z) : bool :=
  let '(m, d) := md_of_yday_l l n in
  (1 <=? m) && (m <=? 12) && (1 <=? d) && (d <=? dim_l l m) && (dbm_l l m + d =? n).
Lemma md_ok_f : forall_range (md_ok false) 1 365 = true. Proof. vm_compute. reflexivity. Qed.
Lemma md_ok_t : forall_range (md_ok true) 1 366 = true. Proof. vm_compute. reflexivity. Qed.

Lemma md_of_yday_l_spec l n : 1 <= n <= diy_l l ->
  let '(m, d) := md_of_yday_l l n in 1 <= m <= 12 /\ 1 <= d <= dim_l l m /\ dbm_l l m + d = n.
Proof.
  intros H. assert (E : md_ok l n = true).
  { destruct l; [apply (forall_range_spec _ _ _ md_ok_t) | apply (forall_range_spec _ _ _ md_ok_f)]; cbn in H; lia. }
  unfold md_ok in E. destruct (md_of_yday_l l n) as [m d]. lia.
Qed.

Theorem ord2ymd_yday y n : 1 <= n <= days_in_year y ->
  ord2ymd (ymd2ord y 1 1 + n - 1) = (y, fst (md_of_yday y n), snd (md_of_yday y n)).
Proof.
  intros H. rewrite days_in_year_l in H. pose proof (md_of_yday_l_spec _ _ H) as S.
  unfold md_of_yday. destruct (md_of_yday_l (is_leap y) n) as [m d]. cbn [fst snd].
  apply yday_to_date; tauto.
Qed.

(* ------------------------------------------------------------------ Python: the translated ordinal loop *)
Lemma py_ord_leap y n : py_iso_ordinal_md y n = py_iso_ordinal_md (if is_leap y then 4 else 1) n.
Proof.
  unfold py_iso_ordinal_md. change (py_is_leap y) with (is_leap y).
  destruct (is_leap y); reflexivity.
Qed.

Definition py_ord_ok (l : bool) (n : Z) : bool :=
  match py_iso_ordinal_md (if l then 4 else 1) n with
  | Ok (m, d) => let '(m', d') := md_of_yday_l l n in (m =? m') && (d =? d')
  | Raise _ => false
  end.
Lemma py_ord_ok_f : forall_range (py_ord_ok false) 1 365 = true. Proof. vm_compute. reflexivity. Qed.
Lemma py_ord_ok_t : forall_range (py_ord_ok true) 1 366 = true. Proof. vm_compute. reflexivity. Qed.

Theorem py_ordinal_spec y n : 1 <= n <= days_in_year y ->
  py_iso_ordinal_md y n = Ok (snd (fst (ord2ymd (ymd2ord y 1 1 + n - 1))), snd (ord2ymd (ymd2ord y 1 1 + n - 1))).
Proof.
  intros H. rewrite ord2ymd_yday by assumption. cbn [fst snd].
  rewrite py_ord_leap. rewrite days_in_year_l in H. unfold md_of_yday.
  assert (E : py_ord_ok (is_leap y) n = true).
  { destruct (is_leap y); [apply (forall_range_spec _ _ _ py_ord_ok_t) | apply (forall_range_spec _ _ _ py_ord_ok_f)]; cbn in H; lia. }
  unfold py_ord_ok in E.
  destruct (py_iso_ordinal_md (if is_leap y then 4 else 1) n) as [[m d]|e]; [|discriminate].
  destruct (md_of_yday_l (is_leap y) n) as [m' d']. cbn [fst snd].
  assert (m = m') by lia. assert (d = d') by lia. subst. reflexivity.
Qed.

(* three-digit ordinals 000..999: the date built from the loop's answer is valid iff the ordinal exists in that year *)
Definition py_ord_accepts (l : bool) (n : Z) : bool :=
  match py_iso_ordinal_md (if l then 4 else 1) n with
  | Ok (m, d) => (1 <=? m) && (m <=? 12) && (1 <=? d) && (d <=? dim_l l m)
  | Raise _ => false
  end.
Definition py_ord_rej_ok (l : bool) (n : Z) : bool := Bool.eqb (py_ord_accepts l n) ((1 <=? n) && (n <=? diy_l l)).
Lemma py_ord_rej_f : forall_range (py_ord_rej_ok false) 0 999 = true. Proof. vm_compute. reflexivity. Qed.
Lemma py_ord_rej_t : forall_range (py_ord_rej_ok true) 0 999 = true. Proof. vm_compute. reflexivity. Qed.

Definition md_valid (y : Z) (r : result (Z * Z)) : Prop :=
  exists m d, r = Ok (m, d) /\ valid_dateb y m d = true.

Theorem py_ordinal_reject y n : 0 <= n <= 999 ->
  (md_valid y (py_iso_ordinal_md y n) <-> 1 <= n <= days_in_year y).
Proof.
  intros H. rewrite py_ord_leap, days_in_year_l.
  assert (E : py_ord_rej_ok (is_leap y) n = true).
  { destruct (is_leap y); [apply (forall_range_spec _ _ _ py_ord_rej_t) | apply (forall_range_spec _ _ _ py_ord_rej_f)]; lia. }
  unfold py_ord_rej_ok, py_ord_accepts in E. unfold md_valid.
  destruct (py_iso_ordinal_md (if is_leap y then 4 else 1) n) as [[m d]|e].
  - split.
    + intros (m0 & d0 & Eq & V). inversion Eq; subst m0 d0. apply valid_dateb_true in V. unfold dim in V.
      apply Bool.eqb_prop in E. generalize dependent (dim_l (is_leap y) m). generalize (diy_l (is_leap y)). intros; lia.
    + intros Hn. exists m, d. split; [reflexivity|]. apply valid_dateb_true. unfold dim.
      apply Bool.eqb_prop in E. generalize dependent (dim_l (is_leap y) m). generalize dependent (diy_l (is_leap y)). intros; lia.
  - split; [intros (m0 & d0 & Eq & _); discriminate|].
    intros Hn. apply Bool.eqb_prop in E. generalize dependent (diy_l (is_leap y)). intros; lia.
Qed.

(* ------------------------------------------------------------------ Rust: ordinal_to_ymd as the code is
   (`ord <= MONTHS_OFFSETS[leap][i]` — finding rs-ordinal-month-end repaired: before the repair the comparison was `<` and
   the theorem below was false on the last day of every month, witness 2021-031) *)
Definition rs_ord_l (l : bool) (n : Z) : option (Z * Z) :=
  if n <? 1 then None else if n >? diy_l l then None
  else rs_ord_loop 14 (tidx2 RS_MONTHS_OFFSETS (Z.b2z l)) n 1.

Lemma rs_ordinal_strict_l y n : 0 <= y ->
  rs_ordinal_to_ymd y n false = match rs_ord_l (is_leap y) n with Some (m, d) => Some (y, m, d) | None => None end.
Proof.
  intros Hy. unfold rs_ordinal_to_ymd, rs_ord_l. cbn [negb].
  destruct (n <? 1); [reflexivity|]. cbv beta iota. rewrite !(rs_days_in_year_spec y) by lia.
  rewrite days_in_year_l. destruct (n >? diy_l (is_leap y)); [reflexivity|]. cbv beta iota.
  rewrite (rs_is_leap_spec y) by lia. reflexivity.
Qed.

Definition is_month_end_yday (l : bool) (n : Z) : bool :=
  let '(m, d) := md_of_yday_l l n in d =? dim_l l m.

(* exact behaviour of the Rust loop on every day of the year, month ends included: month and day of the reference *)
Definition rs_ord_ok (l : bool) (n : Z) : bool :=
  let '(m, d) := md_of_yday_l l n in
  match rs_ord_l l n with
  | Some (m', d') => (m' =? m) && (d' =? d)
  | None => false
  end.
Lemma rs_ord_ok_f : forall_range (rs_ord_ok false) 1 365 = true. Proof. vm_compute. reflexivity. Qed.
Lemma rs_ord_ok_t : forall_range (rs_ord_ok true) 1 366 = true. Proof. vm_compute. reflexivity. Qed.

Lemma rs_ord_ok_all l n : 1 <= n <= diy_l l -> rs_ord_ok l n = true.
Proof. intros H. destruct l; [apply (forall_range_spec _ _ _ rs_ord_ok_t) | apply (forall_range_spec _ _ _ rs_ord_ok_f)]; cbn in H; lia. Qed.

(* full strength: every year, every day of the year *)
Theorem rs_ordinal_spec y n : 0 <= y -> 1 <= n <= days_in_year y ->
  rs_ordinal_to_ymd y n false = Some (ord2ymd (ymd2ord y 1 1 + n - 1)).
Proof.
  intros Hy H. rewrite ord2ymd_yday by assumption. rewrite rs_ordinal_strict_l by assumption.
  rewrite days_in_year_l in H. pose proof (rs_ord_ok_all _ _ H) as E. unfold rs_ord_ok in E.
  unfold md_of_yday.
  destruct (md_of_yday_l (is_leap y) n) as [m d]. cbn [fst snd].
  destruct (rs_ord_l (is_leap y) n) as [[m' d']|]; [|discriminate].
  assert (m' = m) by lia. assert (d' = d) by lia. subst. reflexivity.
Qed.

Example rs_ordinal_spec_hyps_satisfiable : 0 <= 2021 /\ 1 <= 31 <= days_in_year 2021 /\ is_month_end_yday (is_leap 2021) 31 = true.
Proof. vm_compute. repeat split; discriminate. Qed.

(* the former witnesses of the finding (month ends, last day of a common and of a leap year), now instances *)
Theorem rs_ordinal_month_end_witnesses :
  rs_ordinal_to_ymd 2021 31 false = Some (2021, 1, 31) /\ rs_ordinal_to_ymd 2021 365 false = Some (2021, 12, 31) /\
  rs_ordinal_to_ymd 2020 60 false = Some (2020, 2, 29) /\ rs_ordinal_to_ymd 2020 366 false = Some (2020, 12, 31).
Proof. vm_compute. repeat split; reflexivity. Qed.

(* both backends agree on every existing day of every year *)
Theorem rs_ordinal_eq_py y n : 0 <= y -> 1 <= n <= days_in_year y ->
  exists m d, py_iso_ordinal_md y n = Ok (m, d) /\ rs_ordinal_to_ymd y n false = Some (y, m, d).
Proof.
  intros Hy H. rewrite py_ordinal_spec, rs_ordinal_spec by assumption.
  rewrite ord2ymd_yday by assumption. cbn [fst snd]. eauto.
Qed.

(* out-of-range ordinals are refused *)
Theorem rs_ordinal_reject y n : 0 <= y -> (n < 1 \/ n > days_in_year y) -> rs_ordinal_to_ymd y n false = None.
Proof.
  intros Hy H. rewrite rs_ordinal_strict_l by assumption. unfold rs_ord_l. rewrite days_in_year_l in H.
  destruct (n <? 1) eqn:A; [reflexivity|]. destruct (n >? diy_l (is_leap y)) eqn:B; [reflexivity|]. lia.
Qed.
