(* Proofs/C19Mixed.v — Interval.range / __contains__ / the direction test when the two ends carry DIFFERENT tzinfo objects
   (start in one zone, end in UTC / a fixed offset / another zone).  Python then orders the values by their instants, so with the
   fixed-length units the translated range() yields EXACTLY the k with  start instant +- k*n units  not beyond the end's instant —
   also when the end falls inside a repeated hour of the start's zone, where the wall clocks of the start's zone are not monotone.
   (For two ends sharing the tzinfo object this is false of the current code: range_contained_instants_refuted.) *)
From Coq Require Import ZArith List Bool Lia ZifyBool.
From PV Require Import Lib.PyBase Spec.Cal Spec.Zone Spec.NativeDT Proofs.CalFacts Proofs.ZoneFacts.
From PV Require Import Model.TzConvert Model.IntervalRange Gen.IntervalRange Proofs.C19Facts Proofs.C19Mono Proofs.C19Zone.
Import ListNotations.
Ltac Zify.zify_post_hook ::= Z.to_euclidean_division_equations.
Open Scope Z_scope.

(* two aware values with different tzinfo objects are ordered by their instants *)
Lemma same_clock_mixed a b : dv_kind a = K_AWARE -> dv_tzid a <> dv_tzid b -> same_clock a b = false.
Proof.
  intros Ha Hne. unfold same_clock. rewrite Ha. change (K_AWARE =? K_AWARE) with true. cbn [negb orb]. lia.
Qed.

Lemma dt_le_mixed a b : dv_kind a = K_AWARE -> dv_tzid a <> dv_tzid b -> dt_le a b = (dv_inst a <=? dv_inst b).
Proof. intros Ha Hne. unfold dt_le. rewrite (same_clock_mixed a b Ha Hne). reflexivity. Qed.

Lemma dt_lt_mixed a b : dv_kind a = K_AWARE -> dv_tzid a <> dv_tzid b -> dt_lt a b = (dv_inst a <? dv_inst b).
Proof. intros Ha Hne. unfold dt_lt. rewrite (same_clock_mixed a b Ha Hne). reflexivity. Qed.

(* Interval.__init__: the direction of a mixed-zone interval is decided by the instants *)
Lemma interval_direction_mixed_l s e ab : dv_kind e = K_AWARE -> dv_tzid s <> dv_tzid e ->
  iv_invert (mk_interval s e ab) = (dv_inst e <? dv_inst s).
Proof.
  intros He Hne. unfold mk_interval, dt_gt. rewrite (dt_lt_mixed e s He ltac:(congruence)).
  destruct (dv_inst e <? dv_inst s), ab; reflexivity.
Qed.

(* `x in interval` for a value whose tzinfo is neither end's: lo <= x <= hi on instants, the ends taken in ascending order *)
Lemma contains_mixed_l iv x : dv_kind (iv_start iv) = K_AWARE -> dv_kind (iv_end iv) = K_AWARE -> dv_kind x = K_AWARE ->
  dv_tzid (iv_start iv) <> dv_tzid x -> dv_tzid x <> dv_tzid (iv_end iv) ->
  py_contains iv x =
    if range_down iv then (dv_inst (iv_end iv) <=? dv_inst x) && (dv_inst x <=? dv_inst (iv_start iv))
    else (dv_inst (iv_start iv) <=? dv_inst x) && (dv_inst x <=? dv_inst (iv_end iv)).
Proof.
  intros Hs He Hx N1 N2. rewrite contains_spec_l.
  rewrite (dt_le_mixed _ _ Hs N1), (dt_le_mixed _ _ Hx N2), (dt_le_mixed _ _ He (not_eq_sym N2)), (dt_le_mixed _ _ Hx (not_eq_sym N1)).
  reflexivity.
Qed.

(* an element of the sequence with a fixed-length unit: instant, kind and tzinfo *)
Lemma seq_fixed_full iv u n k x :
  wf_zone (dv_zone (iv_start iv)) = true -> dv_kind (iv_start iv) = K_AWARE -> 4 <= u <= 7 -> seq_at iv u n k = Ok x ->
  dv_inst x = dv_inst (iv_start iv) + amount_at iv n k * unit_len u /\ dv_kind x = K_AWARE /\ dv_tzid x = dv_tzid (iv_start iv).
Proof.
  intros Hwf Hk Hu H. destruct k as [|k].
  - cbn in H. injection H as <-. unfold amount_at. destruct (range_down iv); repeat split; try assumption; lia.
  - cbn [seq_at] in H. unfold call_method, range_meth in H. unfold amount_at.
    destruct (range_down iv).
    + change (M_subtract =? M_subtract) with true in H. cbv iota in H.
      destruct (shift_fixed_units _ _ _ _ Hwf Hk Hu H) as (A & _ & C & _ & E). repeat split; congruence.
    + change (M_add =? M_subtract) with false in H. cbv iota in H.
      destruct (shift_fixed_units _ _ _ _ Hwf Hk Hu H) as (A & _ & C & _ & E). repeat split; congruence.
Qed.

Section Mixed.
Variable iv : interval.
Variables u n : Z.
Hypothesis Hwf : wf_zone (dv_zone (iv_start iv)) = true.
Hypothesis Hks : dv_kind (iv_start iv) = K_AWARE.
Hypothesis Hke : dv_kind (iv_end iv) = K_AWARE.
Hypothesis Hne : dv_tzid (iv_start iv) <> dv_tzid (iv_end iv).
Hypothesis Hu : 4 <= u <= 7.

(* the instant of the k-th element: start +- k*n units *)
Definition inst_at (k : nat) : Z := dv_inst (iv_start iv) + amount_at iv n k * unit_len u.
(* not beyond the end's instant, in the direction of the iteration *)
Definition inst_within (U : Z) : bool := if range_down iv then dv_inst (iv_end iv) <=? U else U <=? dv_inst (iv_end iv).

(* the stop test of range() on an element of the sequence IS the comparison of the instants *)
Lemma within_mixed k x : seq_at iv u n k = Ok x -> within iv x = inst_within (inst_at k).
Proof.
  intros H. destruct (seq_fixed_full _ _ _ _ _ Hwf Hks Hu H) as (A & B & C).
  unfold within, apply_op, range_op, inst_within, inst_at. rewrite <- A.
  destruct (range_down iv).
  - change (OP_ge =? OP_ge) with true. cbv iota. unfold dt_ge. apply dt_le_mixed; [exact Hke|congruence].
  - change (OP_le =? OP_ge) with false. cbv iota. apply dt_le_mixed; [exact B|congruence].
Qed.

(* a finished run: every yielded value is at its instant and not beyond the end's instant; the next element of the sequence is beyond it,
   or it is outside the supported range of dates (computing it raises OverflowError / ValueError, which ends the iteration) *)
Lemma range_mixed_stop_l fuel l : py_range fuel iv u n = (l, GDone) ->
  (forall j x, nth_error l j = Some x -> dv_inst x = inst_at j /\ inst_within (inst_at j) = true /\ dv_tzid x = dv_tzid (iv_start iv)) /\
  (inst_within (inst_at (length l)) = false \/ exists e, seq_at iv u n (length l) = Raise e /\ limit_exn e = true).
Proof.
  intros H. destruct (range_prefix_l _ _ _ _ _ H) as [P Q]. split.
  - intros j x Hx.
    assert (Hj : (j < length l)%nat) by (apply nth_error_Some; congruence).
    destruct (P j Hj) as [x' [Hx' [Sx Wx]]]. rewrite Hx in Hx'. injection Hx' as <-.
    destruct (seq_fixed_full _ _ _ _ _ Hwf Hks Hu Sx) as (A & _ & C).
    rewrite (within_mixed _ _ Sx) in Wx. repeat split; assumption.
  - destruct Q as [[y [Hy Wy]]|[e [He [Le _]]]].
    + left. rewrite (within_mixed _ _ Hy) in Wy. exact Wy.
    + right. exists e. split; assumption.
Qed.

(* the instants of the sequence are strictly monotone in the direction of the iteration, so "beyond the end" is upward closed *)
Lemma inst_within_downward j k : 1 <= n -> (j <= k)%nat -> inst_within (inst_at k) = true -> inst_within (inst_at j) = true.
Proof.
  intros Hn Hjk H. destruct (Nat.eq_dec j k) as [->|Hd]; [exact H|].
  pose proof (amount_at_lt iv n j k Hn ltac:(lia)) as L. pose proof (unit_len_pos u).
  unfold inst_within, inst_at in *. destruct (range_down iv); nia.
Qed.

(* EXACT: index k is yielded iff start +- k*n units is not beyond the end's instant — for a run that did not stop at the limit of the calendar
   (the element after the last value is representable) *)
Lemma range_mixed_exact_l fuel l : 1 <= n -> py_range fuel iv u n = (l, GDone) -> (exists y, seq_at iv u n (length l) = Ok y) ->
  forall k, (k < length l)%nat <-> inst_within (inst_at k) = true.
Proof.
  intros Hn H [y0 Hy0] k. destruct (range_mixed_stop_l _ _ H) as [P Q].
  destruct Q as [Q|[e0 [He0 _]]]; [|rewrite He0 in Hy0; discriminate Hy0]. split.
  - intros Hk. destruct (nth_error l k) as [x|] eqn:E; [|apply nth_error_None in E; lia].
    exact (proj1 (proj2 (P k x E))).
  - intros W. destruct (Nat.lt_ge_cases k (length l)) as [|Hge]; [assumption|].
    rewrite (inst_within_downward (length l) k Hn Hge W) in Q. discriminate Q.
Qed.

(* hence the end is yielded iff its instant is on the grid, and then it is the last value *)
Lemma range_mixed_end_l fuel l k : 1 <= n -> py_range fuel iv u n = (l, GDone) -> (exists y, seq_at iv u n (length l) = Ok y) ->
  inst_at k = dv_inst (iv_end iv) -> exists x, nth_error l k = Some x /\ dv_inst x = dv_inst (iv_end iv) /\ length l = S k.
Proof.
  intros Hn H Hrep Hk. pose proof (range_mixed_exact_l _ _ Hn H Hrep) as X. destruct (range_mixed_stop_l _ _ H) as [P Q].
  assert (Wk : inst_within (inst_at k) = true) by (rewrite Hk; unfold inst_within; destruct (range_down iv); lia).
  pose proof (proj2 (X k) Wk) as Lk.
  destruct (nth_error l k) as [x|] eqn:E; [|apply nth_error_None in E; lia].
  exists x. destruct (P k x E) as (A & _). repeat split; [congruence|].
  destruct (Nat.lt_ge_cases (S k) (length l)) as [Hlt|]; [|lia].
  pose proof (proj1 (X (S k)) Hlt) as W2.
  pose proof (amount_at_lt iv n k (S k) Hn ltac:(lia)) as L. pose proof (unit_len_pos u).
  unfold inst_within, inst_at in *. destruct (range_down iv); nia.
Qed.
End Mixed.

(* ---------------------------------------------------------------- witnesses (vm_compute) *)
(* Europe/Paris around 2020-10-25 (clocks back 03:00 -> 02:00 at 01:00Z) and UTC as a second tzinfo object *)
Definition paris : zone := mkzone 7200 [(63739184400, 3600)].
Definition utc0 : zone := mkzone 0 [].
(* start 2020-10-25 00:00+02:00 (22:00Z), end 2020-10-25 00:40Z = 02:40+02:00 (first pass of the repeated hour), every 30 minutes *)
Definition mixed_iv : interval :=
  mk_interval (mkdtv K_AWARE paris false 1 63739180800000000 false) (mkdtv K_AWARE utc0 false 2 63739183200000000 false) false.

(* the range yields 6 values, the last at 00:30Z; 02:00+01:00 (01:00Z) has a SMALLER wall clock than the end rendered in Paris (02:40) but is not yielded *)
Example mixed_zones_first_pass :
  map dv_inst (fst (py_range 20 mixed_iv U_minutes 30)) =
    map (fun k => 63739173600000000 + k * 1800000000) [0; 1; 2; 3; 4; 5] /\
  snd (py_range 20 mixed_iv U_minutes 30) = GDone.
Proof. vm_compute. split; reflexivity. Qed.

(* end 2020-10-25 01:00Z = 02:00+01:00 (second pass): reachable, and yielded as the 7th value although 02:30+02:00 has a LARGER wall clock *)
Example mixed_zones_second_pass :
  let iv := mk_interval (mkdtv K_AWARE paris false 1 63739180800000000 false) (mkdtv K_AWARE utc0 false 2 63739184400000000 false) false in
  map dv_inst (fst (py_range 20 iv U_minutes 30)) = map (fun k => 63739173600000000 + k * 1800000000) [0; 1; 2; 3; 4; 5; 6] /\
  snd (py_range 20 iv U_minutes 30) = GDone /\
  nth_error (map dv_W (fst (py_range 20 iv U_minutes 30))) 5 = Some 63739189800000000 /\       (* 02:30 (+02:00) *)
  nth_error (map dv_W (fst (py_range 20 iv U_minutes 30))) 6 = Some 63739188000000000.         (* 02:00 (+01:00) *)
Proof. vm_compute. repeat split; reflexivity. Qed.

(* that run did not stop at the limit of the calendar: the element after its last value is representable (hypothesis of range_mixed_exact_l / _end_l) *)
Example mixed_next_representable :
  exists y, seq_at mixed_iv U_minutes 30 (length (fst (py_range 20 mixed_iv U_minutes 30))) = Ok y.
Proof. vm_compute. eexists. reflexivity. Qed.

(* the hypotheses of the section are satisfiable *)
Example mixed_hypotheses_satisfiable :
  wf_zone (dv_zone (iv_start mixed_iv)) = true /\ dv_kind (iv_start mixed_iv) = K_AWARE /\ dv_kind (iv_end mixed_iv) = K_AWARE /\
  dv_tzid (iv_start mixed_iv) <> dv_tzid (iv_end mixed_iv).
Proof. vm_compute. repeat split; try reflexivity. discriminate. Qed.
