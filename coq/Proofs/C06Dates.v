(* Proofs/C06Dates.v — C06 for Date operands (p_is_dt = false, time fields zero): the translated Python precise_diff and the
   hand model of the Rust precise_diff satisfy the same arithmetic specification pd_spec (with no time-of-day borrow). *)
From Coq Require Import ZArith List Bool Lia ZifyBool.
From PV Require Import Lib.Reflect Lib.PyBase Spec.Cal Proofs.CalFacts.
From PV Require Import Gen.Constants Gen.Helpers Gen.RustConstants Model.RustHelpers Model.PdBase Gen.PreciseDiff Model.RustPreciseDiff Model.PdInterval.
From PV Require Import Proofs.C06Facts Proofs.C06Spec.
Import ListNotations.
Ltac Zify.zify_post_hook ::= Z.to_euclidean_division_equations.
Open Scope Z_scope.

Definition midnight (d : pdt) : Prop := p_hour d = 0 /\ p_minute d = 0 /\ p_second d = 0 /\ p_microsecond d = 0.
(* both plain dates *)
Definition date_pair (a b : pdt) : Prop :=
  wf_op a /\ wf_op b /\ p_is_dt a = false /\ p_is_dt b = false /\ midnight a /\ midnight b.

Lemma midnight_tod d : midnight d -> tod d = 0.
Proof. intros (H1 & H2 & H3 & H4). unfold tod. rewrite H1, H2, H3, H4. reflexivity. Qed.

Lemma date_wall_lt a b : midnight a -> midnight b -> p_wall a < p_wall b -> p_date_ord a < p_date_ord b.
Proof. intros Ma Mb. rewrite !p_wall_split, (midnight_tod a Ma), (midnight_tod b Mb). unfold us_per_day. lia. Qed.

Lemma key_date a b x : p_is_dt x = false -> p_key a b x = p_date_ord x.
Proof. intros H. unfold p_key. rewrite H. reflexivity. Qed.

Lemma py_pd_spec_date a b : date_pair a b -> p_wall a < p_wall b ->
  match py_precise_diff a b with Ok r => pd_spec a b r /\ pd_total_days r = py_day_number (p_year b) (p_month b) (p_day b) - py_day_number (p_year a) (p_month a) (p_day a) | Raise _ => False end.
Proof.
  intros (Wa & Wb & Da & Db & Ma & Mb) Hlt.
  destruct Wa as (Va & Ta & Oa). destruct Wb as (Vb & Tb & Ob).
  pose proof (date_wall_lt a b Ma Mb Hlt) as Hord.
  assert (Ka : p_key a b a = p_date_ord a) by (apply key_date; assumption).
  assert (Kb : p_key a b b = p_date_ord b) by (apply key_date; assumption).
  assert (Eq : p_eqb a b = false) by (unfold p_eqb; rewrite Ka, Kb; lia).
  assert (Gt : p_gtb a b = false) by (unfold p_gtb; rewrite Ka, Kb; lia).
  assert (Aa : p_aware a = false) by (unfold p_aware; rewrite Da; reflexivity).
  assert (Ab : p_aware b = false) by (unfold p_aware; rewrite Db; reflexivity).
  pose proof (ord_le_lex a b Va Vb ltac:(lia)) as Hlex.
  assert (Hne : ~ (p_year a = p_year b /\ p_month a = p_month b /\ p_day a = p_day b)).
  { intros (E1 & E2 & E3). unfold p_date_ord in Hord. rewrite E1, E2, E3 in Hord. lia. }
  apply valid_dateb_true in Va, Vb.
  unfold py_precise_diff. rewrite Eq, Gt.
  unfold tz_is_none, tzinfo_of, tz_truthy. cbn [fst snd]. rewrite Aa, Ab. cbn [negb andb orb].
  cbv beta iota zeta. rewrite Db. cbv beta iota zeta.
  assert (E1 : tidx (tidx2 C_DAYS_PER_MONTHS (Z.b2z (py_is_leap (p_year b)))) (p_month b) = dim (p_year b) (p_month b)) by (apply dpm_dim; lia).
  assert (E2 : tidx (tidx2 C_DAYS_PER_MONTHS (Z.b2z (py_is_leap (p_year b - 1)))) 12 = dim (p_year b - 1) 12) by (apply dpm_dim; lia).
  assert (E3 : p_month b <> 1 -> tidx (tidx2 C_DAYS_PER_MONTHS (Z.b2z (py_is_leap (p_year b)))) (p_month b - 1) = dim (p_year b) (p_month b - 1)) by (intros; apply dpm_dim; lia).
  pose proof (dim_bounds (p_year b) (p_month b)) as B1. pose proof (dim_bounds (p_year b - 1) 12) as B2. pose proof (dim_bounds (p_year b) (p_month b - 1)) as B3.
  pose proof (dim_bounds (p_year a) (p_month a)) as B4.
  unfold pd_spec, prev_y, prev_m. rewrite (midnight_tod a Ma), (midnight_tod b Mb). unfold us_per_day.
  clear Ta Tb Ma Mb Hlt Eq Gt Ka Kb Aa Ab.
  repeat (match goal with |- context [if ?c then _ else _] => destruct c eqn:? end; cbv beta iota zeta).
  all: cbn [pd_years pd_months pd_days pd_hours pd_minutes pd_seconds pd_microseconds pd_total_days].
  all: try (rewrite E3 in * by lia); rewrite ?E1, ?E2 in *.
  all: lia.
Qed.

Lemma rs_pd_spec_date a b : date_pair a b -> 1 <= p_year a -> p_wall a < p_wall b ->
  pd_spec a b (rs_precise_diff a b) /\
  pd_total_days (rs_precise_diff a b) = rs_day_number (p_year b) (p_month b) (p_day b) - rs_day_number (p_year a) (p_month a) (p_day a).
Proof.
  intros (Wa & Wb & Da & Db & Ma & Mb) Hy Hlt.
  destruct Wa as (Va & Ta & Oa). destruct Wb as (Vb & Tb & Ob).
  pose proof (date_wall_lt a b Ma Mb Hlt) as Hord.
  pose proof (ord_le_lex a b Va Vb ltac:(lia)) as Hlex.
  assert (Hne : ~ (p_year a = p_year b /\ p_month a = p_month b /\ p_day a = p_day b)).
  { intros (E1 & E2 & E3). unfold p_date_ord in Hord. rewrite E1, E2, E3 in Hord. lia. }
  unfold rs_precise_diff. rewrite Da, Db. unfold rs_info.
  apply valid_dateb_true in Va, Vb.
  assert (Hyb : 1 <= p_year b) by (clear - Hlex Hy; lia).
  assert (G : rs_gtb (mkrs (p_year a) (p_month a) (p_day a) 0 0 0 0) (mkrs (p_year b) (p_month b) (p_day b) 0 0 0 0) = false).
  { unfold rs_gtb, rs_fields, lex_gtb. cbn [r_year r_month r_day r_hour r_minute r_second r_micro].
    repeat match goal with |- context [if ?c then _ else _] => destruct c eqn:? end; try reflexivity; exfalso; lia. }
  rewrite G. unfold rs_core. cbn [r_year r_month r_day r_hour r_minute r_second r_micro].
  assert (E1 : tidx (tidx2 RS_DAYS_PER_MONTHS (Z.b2z (rs_is_leap (p_year b)))) (p_month b) = dim (p_year b) (p_month b)) by (apply rs_dpm_dim; lia).
  assert (E2 : tidx (tidx2 RS_DAYS_PER_MONTHS (Z.b2z (rs_is_leap (p_year b - 1)))) 12 = dim (p_year b - 1) 12) by (apply rs_dpm_dim; lia).
  assert (E3 : p_month b <> 1 -> tidx (tidx2 RS_DAYS_PER_MONTHS (Z.b2z (rs_is_leap (p_year b)))) (p_month b - 1) = dim (p_year b) (p_month b - 1)) by (intros; apply rs_dpm_dim; lia).
  pose proof (dim_bounds (p_year b) (p_month b)) as B1. pose proof (dim_bounds (p_year b - 1) 12) as B2. pose proof (dim_bounds (p_year b) (p_month b - 1)) as B3.
  pose proof (dim_bounds (p_year a) (p_month a)) as B4.
  unfold pd_spec, prev_y, prev_m. rewrite (midnight_tod a Ma), (midnight_tod b Mb). unfold us_per_day.
  clear Ta Tb Ma Mb Hlt G.
  change (0 - 0) with 0. change (0 <? 0) with false. cbv beta iota zeta.
  repeat (match goal with |- context [if ?c then _ else _] => destruct c eqn:? end; cbv beta iota zeta).
  all: cbn [pd_years pd_months pd_days pd_hours pd_minutes pd_seconds pd_microseconds pd_total_days].
  all: try (rewrite E3 in * by lia); rewrite ?E1, ?E2 in *.
  all: lia.
Qed.
