(* Proofs/C02Facts.v — wall-clock construction follows the documented DST rules, for every well-formed zone. *)
From Coq Require Import ZArith List Bool Lia ZifyBool.
From PV Require Import Lib.PyBase Spec.Cal Spec.Zone Proofs.ZoneFacts Model.TzConvert.
Ltac Zify.zify_post_hook ::= Z.to_euclidean_division_equations.
Open Scope Z_scope.

Section Construction.
Variable z : zone.
Variable W : Z.     (* requested wall microseconds *)
Variable f : bool.  (* requested fold *)
Let w := sec W.
Let o0 := off_local z w false.
Let o1 := off_local z w true.

(* exists once: returned as is, and its offset is the offset of the one instant that renders to it *)
Lemma create_unique : wf_zone z = true -> wall_unique z w -> forall r,
  convert_naive z W f r = Ok (W, f) /\
  (forall u, renders_to z u w <-> u = w - off_local z w f) /\ off_utc z (w - off_local z w f) = off_local z w f.
Proof.
  intros Hwf Hu r. unfold wall_unique in Hu. fold w in Hu.
  destruct (wall_trichotomy z w Hwf) as [[_ H]|[[H _]|[H _]]]; unfold wall_repeated, wall_skipped in *; try lia.
  split; [|split].
  - unfold convert_naive. fold w. destruct (off_local z w true >? off_local z w false) eqn:E1; [lia|].
    destruct (off_local z w false >? off_local z w true) eqn:E2; [lia|]. reflexivity.
  - intros u. rewrite H. destruct f; lia.
  - assert (E : off_local z w f = off_local z w false) by (destruct f; lia). rewrite E.
    pose proof (proj2 (H (w - off_local z w false)) eq_refl) as R. unfold renders_to in R. lia.
Qed.

(* exists twice: no shift; fold 1 denotes the later instant, fold 0 the earlier, both render to w *)
Lemma create_repeated : wf_zone z = true -> wall_repeated z w ->
  convert_naive z W f false = Ok (W, f) /\
  renders_to z (w - o0) w /\ renders_to z (w - o1) w /\ w - o0 < w - o1 /\
  inst z W f = (if f then W - MEG * o1 else W - MEG * o0) /\
  (forall u, renders_to z u w <-> (u = w - o0 \/ u = w - o1)).
Proof.
  intros Hwf Hr. unfold wall_repeated in Hr.
  destruct (wall_trichotomy z w Hwf) as [[H _]|[[_ [H _]]|[H _]]]; unfold wall_unique, wall_skipped in *; try lia.
  split; [|split; [|split; [|split; [|split]]]].
  - unfold convert_naive. fold w. destruct (off_local z w true >? off_local z w false) eqn:E1; [lia|]. rewrite andb_false_r. reflexivity.
  - apply H. left. reflexivity.
  - apply H. right. reflexivity.
  - unfold o0, o1. lia.
  - unfold inst. fold w. unfold o0, o1. destruct f; reflexivity.
  - exact H.
Qed.

(* does not exist: moved forward by the gap with fold 1 (default), backward with fold 0; the result is an
   unambiguous wall time carrying the post- (resp. pre-) transition offset; needs the separation condition wf2 *)
Lemma create_skipped : wf2_zone z = true -> wall_skipped z w ->
  let g := o1 - o0 in
  0 < g /\
  (wall_in_range (W + MEG * g) = true -> convert_naive z W true false = Ok (W + MEG * g, false)) /\
  (wall_in_range (W - MEG * g) = true -> convert_naive z W false false = Ok (W - MEG * g, false)) /\
  (forall f', off_local z (w + g) f' = o1) /\ (forall f', off_local z (w - g) f' = o0) /\
  sec (W + MEG * g) = w + g /\ sec (W - MEG * g) = w - g.
Proof.
  intros Hwf2 Hs. unfold wall_skipped in Hs. cbv zeta.
  destruct (skipped_shift z w Hwf2 Hs) as [A B]. cbv zeta in A, B.
  split; [unfold o0, o1; lia|]. split; [|split; [|split; [|split; [|split]]]].
  - intros Hr. unfold convert_naive. fold w. destruct (off_local z w true >? off_local z w false) eqn:E1; [|lia].
    unfold o0, o1 in Hr. rewrite Hr. reflexivity.
  - intros Hr. unfold convert_naive. fold w. destruct (off_local z w true >? off_local z w false) eqn:E1; [|lia].
    replace (W + MEG * (off_local z w false - off_local z w true)) with (W - MEG * (o1 - o0)) by (unfold o0, o1; lia).
    rewrite Hr. reflexivity.
  - exact A.
  - exact B.
  - unfold sec, w, sec, MEG. lia.
  - unfold sec, w, sec, MEG. lia.
Qed.

(* raise_on_unknown_times=True raises exactly for skipped and repeated wall times *)
Lemma create_raises_iff : wf_zone z = true ->
  (convert_naive z W f true = Raise E_NonExistingTime <-> (forall u, ~ renders_to z u w)) /\
  (convert_naive z W f true = Raise E_AmbiguousTime <-> (exists u1 u2, u1 <> u2 /\ renders_to z u1 w /\ renders_to z u2 w)) /\
  (convert_naive z W f true = Ok (W, f) <-> (exists u, forall u', renders_to z u' w <-> u' = u)).
Proof.
  intros Hwf. unfold convert_naive. fold w.
  destruct (wall_trichotomy z w Hwf) as [[Hk H]|[[Hk [H _]]|[Hk H]]]; unfold wall_unique, wall_repeated, wall_skipped in Hk.
  - destruct (off_local z w true >? off_local z w false) eqn:E1; [lia|].
    destruct (off_local z w false >? off_local z w true) eqn:E2; [lia|]. cbn [andb].
    split; [|split]; split; intros X; try discriminate; try reflexivity.
    + exfalso. apply (X (w - off_local z w false)). apply H. reflexivity.
    + exfalso. destruct X as (u1 & u2 & Hne & R1 & R2). apply H in R1. apply H in R2. lia.
    + exists (w - off_local z w false). exact H.
  - destruct (off_local z w true >? off_local z w false) eqn:E1; [lia|].
    destruct (off_local z w false >? off_local z w true) eqn:E2; [|lia]. cbn [andb].
    split; [|split]; split; intros X; try discriminate; try reflexivity.
    + exfalso. apply (X (w - off_local z w false)). apply H. left. reflexivity.
    + exists (w - off_local z w false), (w - off_local z w true). split; [lia|]. split; apply H; [left|right]; reflexivity.
    + exfalso. destruct X as [u Hu].
      pose proof (proj1 (Hu (w - off_local z w false)) (proj2 (H _) (or_introl eq_refl))).
      pose proof (proj1 (Hu (w - off_local z w true)) (proj2 (H _) (or_intror eq_refl))). lia.
  - destruct (off_local z w true >? off_local z w false) eqn:E1; [|lia].
    split; [|split]; split; intros X; try discriminate; try reflexivity.
    + exact H.
    + exfalso. destruct X as (u1 & u2 & _ & R1 & _). exact (H u1 R1).
    + exfalso. destruct X as [u Hu]. apply (H u). apply Hu. reflexivity.
Qed.
End Construction.

(* every value returned without raising is a valid local time: some instant renders to exactly these fields,
   and the offset that utcoffset() reports for (W', f') is the offset in force at that instant *)
Lemma create_valid z W f r W' f' : wf2_zone z = true ->
  convert_naive z W f r = Ok (W', f') ->
  let U := inst z W' f' in
  fst (render z U) = W' /\ off_utc z (U / MEG) = off_local z (sec W') f'.
Proof.
  intros Hwf2 Hc. assert (Hwf : wf_zone z = true) by (unfold wf2_zone in Hwf2; apply andb_true_iff in Hwf2; tauto).
  cbv zeta. unfold render, inst, sec. cbn [fst].
  assert (Hle : off_local z (W' / MEG) true <= off_local z (W' / MEG) false /\ (f' = true -> True)).
  { split; [|trivial]. unfold convert_naive, sec in Hc. set (w := W / MEG) in *.
    destruct (off_local z w true >? off_local z w false) eqn:E1.
    - destruct r; [discriminate|].
      assert (Hs : wall_skipped z w) by (unfold wall_skipped; lia).
      destruct (skipped_shift z w Hwf2 Hs) as [A B]. cbv zeta in A, B.
      destruct (wall_in_range _) eqn:Er; [|discriminate].
      assert (EW : W' = W + MEG * (if f then off_local z w true - off_local z w false else off_local z w false - off_local z w true)) by congruence.
      assert (Ef : f' = false) by congruence. subst W' f'. clear Hc.
      destruct f.
      + replace ((W + MEG * (off_local z w true - off_local z w false)) / MEG) with (w + (off_local z w true - off_local z w false)) by (unfold w, MEG; lia).
        rewrite (A false), (A true). lia.
      + replace ((W + MEG * (off_local z w false - off_local z w true)) / MEG) with (w - (off_local z w true - off_local z w false)) by (unfold w, MEG; lia).
        rewrite (B false), (B true). lia.
    - assert (Hok : (W', f') = (W, f)).
      { destruct ((off_local z w false >? off_local z w true) && r); [discriminate|]. now injection Hc as <- <-. }
      injection Hok as -> ->. fold w. lia. }
  destruct Hle as [Hle _].
  assert (G : off_utc z (W' / MEG - off_local z (W' / MEG) f') = off_local z (W' / MEG) f').
  { destruct (local_sound (z_trans z) (z_init z) (W' / MEG) Hwf Hle) as [S0 S1].
    destruct f'; [exact S1|exact S0]. }
  replace ((W' - MEG * off_local z (W' / MEG) f') / MEG) with (W' / MEG - off_local z (W' / MEG) f') by (unfold MEG; lia).
  rewrite G. split; [lia|reflexivity].
Qed.

(* fixed offsets and naive values: identity on the fields *)
Lemma create_fixed o W f r : convert_naive (fixed_zone o) W f r = Ok (W, f).
Proof. unfold convert_naive. rewrite !fixed_zone_local. rewrite Z.gtb_ltb, Z.ltb_irrefl. reflexivity. Qed.
