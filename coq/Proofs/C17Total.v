(* Proofs/C17Total.v — C17: which exceptions each stage of the parse chain can raise (for ALL strings), and the regions of the escapes. *)
From Coq Require Import ZArith List Bool Lia.
From PV Require Import Lib.PyBase Spec.Cal Spec.NativeDT Gen.AddDuration.
From PV Require Import Model.C07Regex Gen.IsoRegex Gen.IsoPost Model.IsoParse Model.DurParse Model.ParseTotal Proofs.C17Regex.
Import ListNotations.
Open Scope Z_scope.

(* exn_in, the compiled parser on all strings (rs_raw_ve, rs_iso8601_ve, shapes): Proofs/C17Rs.v *)
From PV Require Export Proofs.C17Rs.

(* ------------------------------------------------------------------ _parse_common: a value or a ValueError, every string *)
(* the minute group of COMMON is mandatory inside the time group (Proofs/C17Regex.v, on the generated AST): int(m.group("minute")) never sees None *)
Lemma common_minute_absent_never s : common_minute_absent s = false.
Proof.
  unfold common_minute_absent. destruct (re_match COMMON_RE COMMON_NGROUPS (fold_str s)) as [c|] eqn:E; [|reflexivity].
  destruct (has c G_COMMON_time) eqn:HT; [|reflexivity]. rewrite (common_time_has_minute _ _ E HT). reflexivity.
Qed.

Lemma common_classes df s : exn_in [E_ValueError; E_ParserError] (common_parse_df df s).
Proof.
  pose proof (common_minute_absent_never s) as NA. revert NA.
  unfold common_parse_df, common_minute_absent.
  destruct (re_match COMMON_RE COMMON_NGROUPS (fold_str s)) as [c|]; [|intros _; inl].
  match goal with |- context [let '(a, b) := ?E in _] => destruct E as [month day] end.
  destruct (has c G_COMMON_time); simpl.
  - destruct (has c G_COMMON_minute); simpl; [intros _|discriminate].
    destruct (has c G_COMMON_date).
    + eapply exn_in_weaken; [|apply mk_datetime_ve]. intros e [<-|[]]; simpl; auto.
    + eapply exn_in_weaken; [|apply mk_time_ve]. intros e [<-|[]]; simpl; auto.
  - intros _. eapply exn_in_weaken; [|apply mk_date_ve]. intros e [<-|[]]; simpl; auto.
Qed.

Lemma common_total df s : out_ok (common_parse_df df s).
Proof. apply exn_in_ve_ok, common_classes. Qed.

(* the day_first=False instance is C07's common_parse on the folded text *)
Lemma common_parse_df_false s : common_parse_df false s = common_parse (fold_str s).
Proof.
  unfold common_parse_df, common_parse. destruct (re_match COMMON_RE COMMON_NGROUPS (fold_str s)) as [c|]; [|reflexivity].
  destruct (has c G_COMMON_date && has c G_COMMON_monthday); simpl;
  destruct (has c G_COMMON_time); simpl; try reflexivity; destruct (has c G_COMMON_minute); reflexivity.
Qed.

(* ------------------------------------------------------------------ _parse_iso8601_interval *)
Lemma interval_parse_exn iso l s : (forall x, exn_in l (iso x)) -> exn_in (E_ValueError :: E_ParserError :: l) (interval_parse iso s).
Proof.
  intros H. unfold interval_parse. destruct (split_slash s) as [first [last|]]; [|inl].
  assert (H' : forall x, exn_in (E_ValueError :: E_ParserError :: l) (iso x)).
  { intros x. eapply exn_in_weaken; [|apply H]. intros e He; simpl; auto. }
  destruct (has_slash last); [inl|].
  destruct (head_is_P first); [|destruct (head_is_P last)];
    (apply exn_in_bind; [apply H'|intros a; apply exn_in_bind; [apply H'|intros b]]).
  - destruct (endpoint_ok b); inl.
  - destruct (endpoint_ok a); inl.
  - destruct (endpoint_ok a && endpoint_ok b); inl.
Qed.

(* shapes of the halves with the compiled parser *)
Definition rs_form (f : iform) : Prop :=
  match f with
  | F_start_end (I_p _) (I_p _) => True
  | F_start_dur (I_p _) (I_rsdur _) => True
  | F_dur_end (I_rsdur _) b => rs_shaped b
  | _ => False
  end.

Lemma endpoint_ok_ip i : endpoint_ok i = true -> exists p, i = I_p p /\ ((p_kind p =? 1) || (p_kind p =? 2)) = true.
Proof. destruct i as [p| |]; try discriminate. intros H. exists p. split; [reflexivity|exact H]. Qed.

Lemma interval_parse_rs_form s f : interval_parse rs_iso8601 s = Ok f -> rs_form f.
Proof.
  unfold interval_parse. destruct (split_slash s) as [first [last|]]; [|discriminate].
  destruct (has_slash last); [discriminate|].
  destruct (head_is_P first) eqn:HF; [|destruct (head_is_P last) eqn:HL].
  - destruct (rs_iso8601 first) as [d|] eqn:E1; [|discriminate]. simpl.
    destruct (rs_iso8601 last) as [b|] eqn:E2; [|discriminate]. simpl.
    destruct (endpoint_ok b) eqn:EB; [|discriminate]. intros E; inversion E; subst. simpl.
    destruct (rs_iso8601_P _ _ HF E1) as [r ->]. destruct (endpoint_ok_ip _ EB) as [p [-> _]]. simpl. destruct (p_kind p =? 2); exact I.
  - destruct (rs_iso8601 first) as [a|] eqn:E1; [|discriminate]. simpl.
    destruct (rs_iso8601 last) as [d|] eqn:E2; [|discriminate]. simpl.
    destruct (endpoint_ok a) eqn:EA; [|discriminate]. intros E; inversion E; subst. simpl.
    destruct (rs_iso8601_nonP _ _ HF E1) as [p ->]. destruct (rs_iso8601_P _ _ HL E2) as [r ->]. simpl. destruct (p_kind p =? 2); exact I.
  - destruct (rs_iso8601 first) as [a|] eqn:E1; [|discriminate]. simpl.
    destruct (rs_iso8601 last) as [b|] eqn:E2; [|discriminate]. simpl.
    destruct (endpoint_ok a && endpoint_ok b); [|discriminate]. intros E; inversion E; subst. simpl.
    destruct (rs_iso8601_nonP _ _ HF E1) as [p ->]. destruct (rs_iso8601_nonP _ _ HL E2) as [q ->]. exact I.
Qed.

(* ------------------------------------------------------------------ DateTime.add, Interval.__new__/__init__, assembly *)
Lemma ndt_replace_ve d y m dd : exn_in [E_ValueError; E_OverflowError] (ndt_replace_ymd d y m dd).
Proof. unfold ndt_replace_ymd. brk; inl. Qed.
Lemma ndt_add_td_ov d a b c e f : exn_in [E_ValueError; E_OverflowError] (ndt_add_td d a b c e f).
Proof. unfold ndt_add_td. brk; inl. Qed.

Lemma add_duration_exn W y mo w d h mi s us :
  exn_in [E_ValueError; E_OverflowError] (py_add_duration (mkndt W true) y mo w d h mi s us).
Proof.
  unfold py_add_duration. cbn [n_isdt negb andb].
  repeat match goal with |- context [let '(a, b) := ?E in _] => destruct E end.
  match goal with |- context [ndt_replace_ymd ?a ?b ?c ?e] => pose proof (ndt_replace_ve a b c e) as H; destruct (ndt_replace_ymd a b c e) end;
    [apply ndt_add_td_ov | exact H].
Qed.

Lemma dt_add_exn off W p : exn_in [E_ValueError; E_OverflowError] (dt_add off W p).
Proof.
  unfold dt_add. destruct p as [[[[[[[y mo] w] d] h] mi] s] us].
  destruct (negb (y =? 0) || negb (mo =? 0) || negb (w =? 0) || negb (d =? 0)).
  - pose proof (add_duration_exn W y mo w d h mi s us) as H. destruct (py_add_duration _ _ _ _ _ _ _ _ _); [exact I|exact H].
  - destruct (bad_off off); [inl|]. destruct (negb (wall_in_range (W - off * MEG))); [inl|].
    pose proof (add_duration_exn (W - off * MEG) 0 0 0 0 h mi s us) as H. destruct (py_add_duration _ _ _ _ _ _ _ _ _); [|exact H].
    destruct (wall_in_range _); inl.
Qed.

Lemma interval_new_exn b Wa oa Wb ob : exn_in [E_ValueError; E_OverflowError] (interval_new b Wa oa Wb ob).
Proof. unfold interval_new. brk; inl. Qed.
Lemma interval_init_exn rs Wa oa Wb ob : exn_in [E_ValueError; E_OverflowError] (interval_init rs Wa oa Wb ob).
Proof. unfold interval_init. brk; inl. Qed.

Definition ASM : list exn := [E_ValueError; E_OverflowError; E_TypeError; E_AttributeError].
Lemma inclVO : incl [E_ValueError; E_OverflowError] ASM. Proof. intros e [<-|[<-|[]]]; simpl; auto. Qed.

Lemma assemble_rs_exn o f : rs_form f -> exn_in ASM (assemble true o f).
Proof.
  assert (VO : forall A (r : result A), exn_in [E_ValueError; E_OverflowError] r -> exn_in ASM r).
  { intros A r. apply exn_in_weaken, inclVO. }
  destruct f as [a b|a d|d b]; unfold assemble, rs_form.
  - destruct a as [p| |]; try contradiction. destruct b as [q| |]; try contradiction. intros _.
    destruct ((p_kind p =? 1) && (p_kind q =? 1)).
    + apply exn_in_bind; [apply VO, interval_new_exn|intros _].
      apply exn_in_bind; [apply VO, interval_init_exn|intros _; exact I].
    + destruct ((p_kind p =? 1) || (p_kind q =? 1)); [simpl; auto|]. destruct ((p_kind p =? 2) && (p_kind q =? 2)); simpl; auto.
  - destruct a as [p| |]; try contradiction. destruct d as [|r|]; try contradiction. intros _.
    apply exn_in_bind; [exact I|intros parts].
    destruct (p_kind p =? 1); [|simpl; auto].
    apply exn_in_bind; [apply VO, dt_add_exn|intros W'].
    apply exn_in_bind; [apply VO, interval_new_exn|intros _].
    apply exn_in_bind; [apply VO, interval_init_exn|intros _; exact I].
  - destruct d as [|r|]; try contradiction. intros Hb. destruct b as [p| |]; try (simpl; auto; fail).
    apply exn_in_bind; [exact I|intros parts].
    destruct (p_kind p =? 1); [|simpl; auto].
    apply exn_in_bind; [apply VO, dt_add_exn|intros W'].
    apply exn_in_bind; [apply VO, interval_new_exn|intros _].
    apply exn_in_bind; [apply VO, interval_init_exn|intros _; exact I].
Qed.

(* with date-time endpoints only the arithmetic can fail *)
Definition all_dt (f : iform) : bool :=
  match f with
  | F_start_end (I_p p) (I_p q) => (p_kind p =? 1) && (p_kind q =? 1) || ((p_kind p =? 2) && (p_kind q =? 2)) || (p_kind p =? 1) || (p_kind q =? 1)
  | F_start_dur (I_p p) _ => p_kind p =? 1
  | F_dur_end _ (I_p p) => p_kind p =? 1
  | _ => false
  end.

Lemma assemble_rs_dt o f : rs_form f -> all_dt f = true -> exn_in [E_ValueError; E_OverflowError] (assemble true o f).
Proof.
  destruct f as [a b|a d|d b]; unfold assemble, rs_form, all_dt.
  - destruct a as [p| |]; try contradiction. destruct b as [q| |]; try contradiction. intros _ H.
    destruct (p_kind p =? 1), (p_kind q =? 1), (p_kind p =? 2), (p_kind q =? 2); cbn [andb orb] in *; try discriminate;
      try (apply exn_in_bind; [apply interval_new_exn|intros _]; apply exn_in_bind; [apply interval_init_exn|intros _; exact I]);
      simpl; auto.
  - destruct a as [p| |]; try contradiction. destruct d as [|r|]; try contradiction. intros _ H. rewrite H.
    apply exn_in_bind; [exact I|intros parts].
    apply exn_in_bind; [apply dt_add_exn|intros W'].
    apply exn_in_bind; [apply interval_new_exn|intros _].
    apply exn_in_bind; [apply interval_init_exn|intros _; exact I].
  - destruct d as [|r|]; try contradiction. intros Hb H. destruct b as [p| |]; try discriminate. rewrite H.
    apply exn_in_bind; [exact I|intros parts].
    apply exn_in_bind; [apply dt_add_exn|intros W'].
    apply exn_in_bind; [apply interval_new_exn|intros _].
    apply exn_in_bind; [apply interval_init_exn|intros _; exact I].
Qed.

(* _parse_iso8601_interval only lets date and date-time endpoints through and turns a date next to a duration into a date-time:
   every form it returns (either backend) has date-time endpoints in the sense of all_dt *)
Lemma interval_parse_dt iso s f : interval_parse iso s = Ok f -> all_dt f = true.
Proof.
  unfold interval_parse. destruct (split_slash s) as [first [last|]]; [|discriminate].
  destruct (has_slash last); [discriminate|].
  assert (M : forall p, ((p_kind p =? 1) || (p_kind p =? 2)) = true ->
              match at_midnight (I_p p) with I_p q => p_kind q =? 1 | _ => false end = true).
  { intros p H. unfold at_midnight. destruct (p_kind p =? 2) eqn:K2; [reflexivity|]. rewrite orb_false_r in H. exact H. }
  destruct (head_is_P first); [|destruct (head_is_P last)].
  - destruct (iso first) as [d|]; [|discriminate]. simpl. destruct (iso last) as [b|]; [|discriminate]. simpl.
    destruct (endpoint_ok b) eqn:EB; [|discriminate]. intros E; inversion E; subst.
    destruct (endpoint_ok_ip _ EB) as [p [-> K]]. specialize (M p K). unfold all_dt. destruct (at_midnight (I_p p)); [exact M|discriminate|discriminate].
  - destruct (iso first) as [a|]; [|discriminate]. simpl. destruct (iso last) as [d|]; [|discriminate]. simpl.
    destruct (endpoint_ok a) eqn:EA; [|discriminate]. intros E; inversion E; subst.
    destruct (endpoint_ok_ip _ EA) as [p [-> K]]. specialize (M p K). unfold all_dt. destruct (at_midnight (I_p p)); [exact M|discriminate|discriminate].
  - destruct (iso first) as [a|]; [|discriminate]. simpl. destruct (iso last) as [b|]; [|discriminate]. simpl.
    destruct (endpoint_ok a) eqn:EA; [|discriminate]. destruct (endpoint_ok b) eqn:EB; [|discriminate]. cbn [andb]. intros E; inversion E; subst.
    destruct (endpoint_ok_ip _ EA) as [p [-> Kp]]. destruct (endpoint_ok_ip _ EB) as [q [-> Kq]]. unfold all_dt.
    destruct (p_kind p =? 1), (p_kind p =? 2), (p_kind q =? 1), (p_kind q =? 2); try discriminate; reflexivity.
Qed.

(* ... and with another kind of endpoint the assembly raises before any arithmetic (not reachable from _parse_iso8601_interval any more) *)
Lemma assemble_rs_nondt o f : rs_form f -> all_dt f = false -> exn_in [E_TypeError; E_AttributeError] (assemble true o f).
Proof.
  destruct f as [a b|a d|d b]; unfold assemble, rs_form, all_dt.
  - destruct a as [p| |]; try contradiction. destruct b as [q| |]; try contradiction. intros _ H.
    destruct (p_kind p =? 1), (p_kind q =? 1), (p_kind p =? 2), (p_kind q =? 2); cbn [andb orb] in *; try discriminate; simpl; auto.
  - destruct a as [p| |]; try contradiction. destruct d as [|r|]; try contradiction. intros _ H. rewrite H.
    apply exn_in_bind; [exact I|intros parts; simpl; auto].
  - destruct d as [|r|]; try contradiction. intros Hb H. destruct b as [p| |]; try (simpl; auto; fail). rewrite H.
    apply exn_in_bind; [exact I|intros parts; simpl; auto].
Qed.

(* ------------------------------------------------------------------ finishing a single value *)
Lemma finish_ip rs o p : exists v, finish rs o (normalize o (R_i (I_p p))) = Ok v.
Proof.
  unfold normalize. destruct (o_exact o).
  - unfold finish. brk; eexists; reflexivity.
  - destruct (p_kind p =? 3) eqn:K3.
    + destruct (o_now o) as [[ny nm] nd]. unfold finish. cbn [p_kind]. simpl. eexists; reflexivity.
    + destruct (p_kind p =? 2) eqn:K2.
      * unfold finish. cbn [p_kind]. simpl. eexists; reflexivity.
      * unfold finish. brk; eexists; reflexivity.
Qed.

Lemma rs_glue_exn r : exn_in [E_OverflowError] (rs_glue r).
Proof.
  unfold rs_glue, duration_native, DurParse.td_total_us, accum. cbn [bind f_is_zero f_zero].
  unfold td_norm. brk; inl.
Qed.

Lemma normalize_other o r : (forall p, r <> R_i (I_p p)) -> normalize o r = r.
Proof. unfold normalize. destruct (o_exact o); [reflexivity|]. destruct r as [[p| |]|f]; try reflexivity. intros H. destruct (H p eq_refl). Qed.

(* ------------------------------------------------------------------ the whole chain, compiled backend, every string *)
Definition interval_nondt (rs : bool) (s : list Z) : bool :=
  match interval_parse (iso8601 rs) s with Ok f => negb (all_dt f) | Raise _ => false end.
Definition interval_ok (rs : bool) (s : list Z) : bool :=
  match interval_parse (iso8601 rs) s with Ok _ => true | Raise _ => false end.
Definition rs_duration_overflow (s : list Z) : bool :=
  match rs_iso8601 s with
  | Ok (I_rsdur r) => match rs_glue r with Raise E_OverflowError => true | _ => false end
  | _ => false
  end.

Section Chain.
  Variable du : list Z -> bool -> bool -> result pval.
  (* all that is asked of dateutil: a datetime, a ValueError or an OverflowError (it raises one on long digit runs) *)
  Hypothesis du_ok : forall s a b, exn_in [E_ValueError; E_ParserError; E_OverflowError] (du s a b).

  Theorem parse_total_rs_all : forall o s,
    match parse_full du true o s with
    | Ok _ => True
    | Raise E_ValueError | Raise E_ParserError => True
    | Raise _ => False
    end.
  Proof.
    intros o s. unfold parse_full. destruct (is_now s); [exact I|].
    unfold base_parse. cbn [iso8601].
    pose proof (rs_iso8601_ve s) as H1. pose proof (rs_iso8601_shape s) as S1.
    destruct (rs_iso8601 s) as [i|e1].
    - (* a single value *)
      cbn [bind]. destruct i as [p|r|x ob].
      + destruct (finish_ip true o p) as [v ->]. exact I.
      + rewrite normalize_other by (intros p; discriminate). cbn [finish].
        pose proof (rs_glue_exn r) as G. destruct (rs_glue r) as [xo|e]; [exact I|]. simpl in G. destruct G as [<-|[]]. exact I.
      + destruct (S1 _ eq_refl).
    - simpl in H1. destruct H1 as [<-|[]]. cbn [is_ve negb].
      pose proof (interval_parse_exn rs_iso8601 [E_ValueError] s rs_iso8601_ve) as H2.
      pose proof (interval_parse_rs_form s) as F2.
      destruct (interval_parse rs_iso8601 s) as [f|e2] eqn:E2f.
      + cbn [bind]. rewrite normalize_other by (intros p; discriminate). cbn [finish].
        specialize (F2 f eq_refl). pose proof (interval_parse_dt _ _ _ E2f) as A.
        pose proof (assemble_rs_dt o f F2 A) as H. destruct (assemble true o f) as [v|e]; [exact I|].
        simpl in H. destruct H as [<-|[<-|[]]]; exact I.
      + simpl in H2. assert (V : is_ve e2 = true) by (destruct H2 as [<-|[<-|[<-|[]]]]; reflexivity). rewrite V. cbn [negb].
        pose proof (common_classes (o_day_first o) s) as H3.
        destruct (common_parse_df (o_day_first o) s) as [p|e3].
        * cbn [bind]. destruct (finish_ip true o p) as [v ->]. exact I.
        * simpl in H3. destruct H3 as [<-|[<-|[]]]; cbn [bind]; [exact I|].
          destruct (o_strict o); [exact I|].
          pose proof (du_ok s (o_day_first o) (o_year_first o)) as D.
          destruct (du s (o_day_first o) (o_year_first o)) as [p|e4].
          -- destruct (match p_off p with Some z => (z <=? -86400) || (86400 <=? z) | None => false end); [exact I|].
             cbn [bind]. destruct (finish_ip true o p) as [v ->]. exact I.
          -- simpl in D. destruct D as [<-|[<-|[<-|[]]]]; exact I.
  Qed.
End Chain.

(* ------------------------------------------------------------------ strict=True never consults dateutil *)
Lemma strict_no_oracle rs o s : o_strict o = true -> reaches_oracle rs o s = false.
Proof.
  intros H. unfold reaches_oracle. destruct (iso8601 rs s) as [|e1]; [reflexivity|].
  destruct (interval_parse (iso8601 rs) s) as [|e2]; [apply andb_false_r|].
  destruct (common_parse_df (o_day_first o) s) as [|e3]; [rewrite !andb_false_r; reflexivity|].
  destruct e3; rewrite ?H; simpl; rewrite ?andb_false_r; reflexivity.
Qed.

Lemma oracle_independent du1 du2 rs o s : reaches_oracle rs o s = false -> parse_full du1 rs o s = parse_full du2 rs o s.
Proof.
  unfold parse_full, base_parse, reaches_oracle. destruct (is_now s); [reflexivity|].
  destruct (iso8601 rs s) as [|e1]; [reflexivity|].
  destruct (is_ve e1); [|reflexivity]. cbn [negb andb].
  destruct (interval_parse (iso8601 rs) s) as [|e2]; [reflexivity|].
  destruct (is_ve e2); [|reflexivity]. cbn [negb andb].
  destruct (common_parse_df (o_day_first o) s) as [|e3]; [reflexivity|].
  destruct e3; try reflexivity. destruct (o_strict o); [reflexivity|discriminate].
Qed.

(* when the oracle IS reached the result is the oracle's datetime (delivered by _normalize / parser.py) or ParserError *)
Lemma oracle_reached du rs o s : reaches_oracle rs o s = true -> is_now s = false ->
  parse_full du rs o s = match du s (o_day_first o) (o_year_first o) with
                         | Ok p => if match p_off p with Some z => bad_off z | None => false end then Raise E_ParserError
                                   else finish rs o (normalize o (R_i (I_p p)))
                         | Raise E_ValueError | Raise E_ParserError | Raise E_OverflowError => Raise E_ParserError
                         | Raise e => Raise e
                         end.
Proof.
  unfold parse_full, base_parse, reaches_oracle. intros H ->.
  destruct (iso8601 rs s) as [|e1]; [discriminate|].
  destruct (is_ve e1); [|discriminate]. cbn [negb andb] in *.
  destruct (interval_parse (iso8601 rs) s) as [|e2]; [discriminate|].
  destruct (is_ve e2); [|discriminate]. cbn [negb andb] in *.
  destruct (common_parse_df (o_day_first o) s) as [|e3]; [discriminate|].
  destruct e3; try discriminate. destruct (o_strict o); [discriminate|].
  destruct (du s (o_day_first o) (o_year_first o)) as [p|e9]; [|destruct e9; reflexivity].
  unfold bad_off. destruct (match p_off p with Some z => (z <=? -86400) || (86400 <=? z) | None => false end); reflexivity.
Qed.

(* ------------------------------------------------------------------ offsets: 24 h and more are rejected by both recognisers *)
Lemma rs_parse_int_bound : forall n s acc v r, rs_parse_int n s acc = Some (v, r) ->
  10 ^ Z.of_nat n * acc <= v <= 10 ^ Z.of_nat n * acc + (10 ^ Z.of_nat n - 1).
Proof.
  induction n as [|n IH]; intros s acc v r H.
  - simpl in H. inversion H; subst. change (Z.of_nat 0) with 0. rewrite Z.pow_0_r. lia.
  - cbn [rs_parse_int] in H. destruct s as [|c t]; [discriminate|]. destruct (IsoParse.is_digit c) eqn:D; [|discriminate].
    apply IH in H. unfold IsoParse.is_digit in D. rewrite Nat2Z.inj_succ, Z.pow_succ_r by lia.
    assert (0 < 10 ^ Z.of_nat n) by (apply Z.pow_pos_nonneg; lia).
    apply andb_true_iff in D. destruct D as [D1 D2]. apply Z.leb_le in D1, D2. nia.
Qed.

Lemma rs_offset_in_range s o r : rs_offset s = Some (Some o, r) -> bad_off o = false.
Proof.
  unfold rs_offset, bad_off. destruct (cur s =? ch_Z); [intros H; inversion H; reflexivity|].
  destruct ((cur s =? ch_plus) || (cur s =? ch_dash)); [|discriminate].
  destruct (rs_parse_int 2 (inc s) 0) as [[tzh s1]|] eqn:E1; [|discriminate].
  apply rs_parse_int_bound in E1. change (10 ^ Z.of_nat 2) with 100 in E1.
  match goal with |- context [if isend ?x then _ else _] => destruct (isend x) end.
  - destruct (0 + tzh * 60 >=? 24 * 60) eqn:B; [discriminate|]. intros H; inversion H; subst.
    rewrite Z.geb_leb in B. apply Z.leb_gt in B. destruct (cur s =? ch_plus); apply orb_false_iff; split; apply Z.leb_gt; lia.
  - match goal with |- context [rs_parse_int 2 ?x 0] => destruct (rs_parse_int 2 x 0) as [[tzm s3]|] eqn:E2 end; [|discriminate].
    apply rs_parse_int_bound in E2. change (10 ^ Z.of_nat 2) with 100 in E2.
    destruct (tzm + tzh * 60 >=? 24 * 60) eqn:B; [discriminate|]. intros H; inversion H; subst.
    rewrite Z.geb_leb in B. apply Z.leb_gt in B. destruct (cur s =? ch_plus); apply orb_false_iff; split; apply Z.leb_gt; lia.
Qed.
