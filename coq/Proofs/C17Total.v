(* Proofs/C17Total.v — C17: which exceptions each stage of the parse chain can raise (for ALL strings), and the regions of the escapes. *)
From Coq Require Import ZArith List Bool Lia.
From PV Require Import Lib.PyBase Spec.Cal Spec.NativeDT Gen.AddDuration.
From PV Require Import Model.C07Regex Gen.IsoRegex Gen.IsoPost Model.IsoParse Model.DurParse Model.ParseTotal.
Import ListNotations.
Open Scope Z_scope.

(* the exception (if any) is one of l *)
Definition exn_in {A} (l : list exn) (r : result A) : Prop := match r with Ok _ => True | Raise e => In e l end.

Lemma exn_in_bind {A B} l (r : result A) (f : A -> result B) :
  exn_in l r -> (forall a, exn_in l (f a)) -> exn_in l (bind r f).
Proof. destruct r; simpl; auto. Qed.

Lemma exn_in_weaken {A} l l' (r : result A) : incl l l' -> exn_in l r -> exn_in l' r.
Proof. destruct r; simpl; auto. Qed.

Lemma exn_in_ve_ok {A} (r : result A) : exn_in [E_ValueError; E_ParserError] r -> out_ok r.
Proof. destruct r as [|e]; simpl; auto. intros [<-|[<-|[]]]; exact I. Qed.

Ltac brk := repeat match goal with |- context [match ?x with _ => _ end] => destruct x end.
Ltac inl := simpl; auto 10.

(* ------------------------------------------------------------------ the compiled parser, all strings *)
Lemma mk_date_ve y m d : exn_in [E_ValueError] (mk_date y m d).
Proof. unfold mk_date. destruct (valid_date y m d); inl. Qed.
Lemma mk_time_ve H M S us o : exn_in [E_ValueError] (mk_time H M S us o).
Proof. unfold mk_time. destruct (valid_time H M S us); inl. Qed.
Lemma mk_datetime_ve y m d H M S us o : exn_in [E_ValueError] (mk_datetime y m d H M S us o).
Proof. unfold mk_datetime. destruct (valid_date y m d && valid_time H M S us); inl. Qed.

Lemma rs_parse_iso_ve s : exn_in [E_ValueError] (rs_parse_iso s).
Proof.
  unfold rs_parse_iso. destruct (rs_parse_datetime s) as [dt|]; [|inl].
  destruct (r_has_date dt), (r_has_time dt); auto using mk_date_ve, mk_time_ve, mk_datetime_ve; inl.
Qed.

(* parse_duration: the loop consumes at least one character per turn, so the fuel of rs_raw is never exhausted *)
Lemma rs_num_loop_len l : forall v, (length (snd (rs_num_loop v l)) <= length l)%nat.
Proof. induction l as [|c r IH]; intros v; simpl; [lia|]. destruct (DurParse.is_digit c); simpl; [specialize (IH (u32 (u32 (v * 10) + (c - 48)))); lia | lia]. Qed.

Lemma rs_frac_loop_len l : forall a b, (length (snd (rs_frac_loop a b l)) <= length l)%nat.
Proof. induction l as [|c r IH]; intros a b; simpl; [lia|]. destruct (DurParse.is_digit c); simpl; [match goal with |- context [rs_frac_loop ?x ?y r] => specialize (IH x y) end; lia | lia]. Qed.

Lemma rs_number_frac_len l v fr l1 : rs_number_frac l = Ok (v, fr, l1) -> (length l1 < length l)%nat.
Proof.
  unfold rs_number_frac, rs_number. destruct l as [|c r]; simpl; [discriminate|].
  destruct (DurParse.is_digit c); simpl; [|discriminate].
  pose proof (rs_num_loop_len r (c - 48)) as H1. destruct (rs_num_loop (c - 48) r) as [v0 l0]. simpl in H1.
  destruct l0 as [|c0 r0]; [intros E; inversion E; subst; simpl; lia|].
  destruct (is_sep c0).
  - pose proof (rs_frac_loop_len r0 f_zero f_one) as H2. destruct (rs_frac_loop f_zero f_one r0) as [[dec den] l2]. simpl in H2.
    intros E; inversion E; subst. simpl in *. lia.
  - intros E; inversion E; subst. simpl in *. lia.
Qed.

Lemma rs_number_frac_ve l : exn_in [E_ValueError] (rs_number_frac l).
Proof.
  unfold rs_number_frac, rs_number. destruct l as [|c r]; [inl|]. destruct (DurParse.is_digit c); [|inl]. simpl.
  destruct (rs_num_loop (c - 48) r) as [v0 l0]. destruct l0 as [|c0 r0]; [inl|]. destruct (is_sep c0); [|inl].
  destruct (rs_frac_loop f_zero f_one r0) as [[dec den] l2]. inl.
Qed.

Lemma rs_unit_ve gt cur v fr lhf d : exn_in [E_ValueError] (rs_unit gt cur v fr lhf d).
Proof. unfold rs_unit. brk; inl. Qed.

Lemma rs_loop_ve : forall f d gt lhf l, (length l < f)%nat -> exn_in [E_ValueError] (rs_loop f d gt lhf l).
Proof.
  induction f as [|f IH]; intros d gt lhf l Hl; [lia|].
  simpl. destruct l as [|c r]; [inl|].
  destruct (c =? c_T).
  - destruct gt; [inl|]. destruct (is_nil r); [inl|]. apply IH. simpl in Hl. lia.
  - pose proof (rs_number_frac_ve (c :: r)) as Hv. pose proof (rs_number_frac_len (c :: r)) as Hn.
    destruct (rs_number_frac (c :: r)) as [[[v fr] l1]|e]; [|exact Hv]. simpl.
    specialize (Hn v fr l1 eq_refl).
    destruct lhf; [inl|]. destruct l1 as [|cur r1]; [inl|].
    pose proof (rs_unit_ve gt cur v fr (match fr with Some _ => true | None => false end) d) as Hu.
    destruct (rs_unit gt cur v fr (match fr with Some _ => true | None => false end) d) as [d'|e]; [|exact Hu]. simpl.
    destruct (is_nil r1); [inl|]. apply IH. simpl in *. lia.
Qed.

Lemma rs_raw_ve s : exn_in [E_ValueError] (rs_raw s).
Proof. unfold rs_raw. destruct s as [|c l]; [inl|]. destruct (c =? c_P); [|inl]. apply rs_loop_ve. lia. Qed.

Lemma rs_iso8601_ve s : exn_in [E_ValueError] (rs_iso8601 s).
Proof.
  unfold rs_iso8601. destruct (existsb is_surrogate s); [inl|]. destruct (cur s =? ch_P).
  - pose proof (rs_raw_ve s). destruct (rs_raw s); auto.
  - pose proof (rs_parse_iso_ve s). unfold lift_p. destruct (rs_parse_iso s); auto.
Qed.

(* the compiled parser never yields a pendulum (Python) Duration *)
Definition rs_shaped (i : ival) : Prop := match i with I_pydur _ _ => False | _ => True end.
Lemma rs_iso8601_shape s i : rs_iso8601 s = Ok i -> rs_shaped i.
Proof.
  unfold rs_iso8601, lift_p. destruct (existsb is_surrogate s); [discriminate|]. destruct (cur s =? ch_P).
  - destruct (rs_raw s); intros E; inversion E; exact I.
  - destruct (rs_parse_iso s); intros E; inversion E; exact I.
Qed.
(* ... and a string that does not begin with 'P' never yields a duration *)
Lemma rs_iso8601_nonP s i : head_is_P s = false -> rs_iso8601 s = Ok i -> exists p, i = I_p p.
Proof.
  unfold rs_iso8601, lift_p, head_is_P, cur, ch_P. destruct (existsb is_surrogate s); [discriminate|].
  destruct s as [|c t]; intros H.
  - simpl. destruct (rs_parse_iso []); intros E; inversion E; eauto.
  - rewrite H. destruct (rs_parse_iso (c :: t)); intros E; inversion E; eauto.
Qed.

(* ------------------------------------------------------------------ _parse_common: TypeError exactly on the minute-absent region *)
Lemma common_classes df s :
  match common_parse_df df s with
  | Raise E_TypeError => common_minute_absent s = true
  | r => out_ok r
  end.
Proof.
  unfold common_parse_df, common_minute_absent.
  destruct (re_match COMMON_RE COMMON_NGROUPS (fold_str s)) as [c|]; [|exact I].
  match goal with |- context [let '(a, b) := ?E in _] => destruct E as [month day] end.
  destruct (has c G_COMMON_time); simpl.
  - destruct (has c G_COMMON_minute); simpl; [|reflexivity].
    destruct (has c G_COMMON_date).
    + pose proof (mk_datetime_ve (int_of (gtext c G_COMMON_year)) month day (int_of (gtext c G_COMMON_hour)) (int_of (gtext c G_COMMON_minute))
                   (if has c G_COMMON_second then int_of (gtext c G_COMMON_second) else 0)
                   (if has c G_COMMON_subsecondsection then int_of (pad6r (firstn 6 (gtext c G_COMMON_subsecond))) else 0) None) as H.
      destruct (mk_datetime _ _ _ _ _ _ _ _) as [|e]; [exact I|]. simpl in H. destruct H as [<-|[]]. exact I.
    + pose proof (mk_time_ve (int_of (gtext c G_COMMON_hour)) (int_of (gtext c G_COMMON_minute))
                   (if has c G_COMMON_second then int_of (gtext c G_COMMON_second) else 0)
                   (if has c G_COMMON_subsecondsection then int_of (pad6r (firstn 6 (gtext c G_COMMON_subsecond))) else 0) None) as H.
      destruct (mk_time _ _ _ _ _) as [|e]; [exact I|]. simpl in H. destruct H as [<-|[]]. exact I.
  - pose proof (mk_date_ve (if has c G_COMMON_date then int_of (gtext c G_COMMON_year) else 0) month day) as H.
    destruct (mk_date _ _ _) as [|e]; [exact I|]. simpl in H. destruct H as [<-|[]]. exact I.
Qed.

Lemma common_exn df s : exn_in [E_ValueError; E_ParserError; E_TypeError] (common_parse_df df s).
Proof.
  pose proof (common_classes df s) as H. destruct (common_parse_df df s) as [|e]; [exact I|].
  destruct e; simpl in *; auto 10; contradiction.
Qed.

(* the day_first=False instance is C07's common_parse on the folded text *)
Lemma common_parse_df_false s : common_parse_df false s = common_parse (fold_str s).
Proof.
  unfold common_parse_df, common_parse. destruct (re_match COMMON_RE COMMON_NGROUPS (fold_str s)) as [c|]; [|reflexivity].
  destruct (has c G_COMMON_date && has c G_COMMON_monthday); simpl;
  destruct (has c G_COMMON_time); simpl; try reflexivity; destruct (has c G_COMMON_minute); reflexivity.
Qed.

(* ------------------------------------------------------------------ _parse_iso8601_interval *)
Lemma interval_parse_exn iso l s : (forall x, exn_in l (iso x)) -> exn_in (E_ValueError :: E_ParserError :: l) (interval_parse iso s).
Proof.
  intros H. unfold interval_parse. destruct (split_slash s) as [first [last|]]; [|inl].
  assert (H' : forall x, exn_in (E_ValueError :: E_ParserError :: l) (iso x)).
  { intros x. eapply exn_in_weaken; [|apply H]. intros e He; simpl; auto. }
  destruct (has_slash last); [inl|].
  destruct (head_is_P first); [|destruct (head_is_P last)];
    (apply exn_in_bind; [apply H'|intros a; apply exn_in_bind; [apply H'|intros b; exact I]]).
Qed.

(* shapes of the halves with the compiled parser *)
Definition rs_form (f : iform) : Prop :=
  match f with
  | F_start_end (I_p _) (I_p _) => True
  | F_start_dur (I_p _) d => rs_shaped d
  | F_dur_end d b => rs_shaped d /\ rs_shaped b
  | _ => False
  end.

Lemma interval_parse_rs_form s f : interval_parse rs_iso8601 s = Ok f -> rs_form f.
Proof.
  unfold interval_parse. destruct (split_slash s) as [first [last|]]; [|discriminate].
  destruct (has_slash last); [discriminate|].
  destruct (head_is_P first) eqn:HF; [|destruct (head_is_P last) eqn:HL].
  - destruct (rs_iso8601 first) as [d|] eqn:E1; [|discriminate]. simpl.
    destruct (rs_iso8601 last) as [b|] eqn:E2; [|discriminate]. simpl. intros E; inversion E; subst. simpl.
    split; eapply rs_iso8601_shape; eauto.
  - destruct (rs_iso8601 first) as [a|] eqn:E1; [|discriminate]. simpl.
    destruct (rs_iso8601 last) as [d|] eqn:E2; [|discriminate]. simpl. intros E; inversion E; subst. simpl.
    destruct (rs_iso8601_nonP _ _ HF E1) as [p ->]. eapply rs_iso8601_shape; eauto.
  - destruct (rs_iso8601 first) as [a|] eqn:E1; [|discriminate]. simpl.
    destruct (rs_iso8601 last) as [b|] eqn:E2; [|discriminate]. simpl. intros E; inversion E; subst. simpl.
    destruct (rs_iso8601_nonP _ _ HF E1) as [p ->]. destruct (rs_iso8601_nonP _ _ HL E2) as [q ->]. exact I.
Qed.

(* ------------------------------------------------------------------ DateTime.add, Interval.__new__/__init__, assembly *)
Lemma ndt_replace_ve d y m dd : exn_in [E_ValueError; E_OverflowError] (ndt_replace_ymd d y m dd).
Proof. unfold ndt_replace_ymd. brk; inl. Qed.
Lemma ndt_add_td_ov d a b c e f : exn_in [E_ValueError; E_OverflowError] (ndt_add_td d a b c e f).
Proof. unfold ndt_add_td. brk; inl. Qed.

Lemma add_duration_exn W y mo w d h mi s us :
  exn_in [E_ValueError; E_OverflowError] (py_add_duration (mkndt W true) y mo w d h mi s us).
Proof.
  unfold py_add_duration. cbn [n_isdt negb andb].
  repeat match goal with |- context [let '(a, b) := ?E in _] => destruct E end.
  match goal with |- context [ndt_replace_ymd ?a ?b ?c ?e] => pose proof (ndt_replace_ve a b c e) as H; destruct (ndt_replace_ymd a b c e) end;
    [apply ndt_add_td_ov | exact H].
Qed.

Lemma dt_add_exn off W p : exn_in [E_ValueError; E_OverflowError] (dt_add off W p).
Proof.
  unfold dt_add. destruct p as [[[[[[[y mo] w] d] h] mi] s] us].
  destruct (negb (y =? 0) || negb (mo =? 0) || negb (w =? 0) || negb (d =? 0)).
  - pose proof (add_duration_exn W y mo w d h mi s us) as H. destruct (py_add_duration _ _ _ _ _ _ _ _ _); [exact I|exact H].
  - destruct (bad_off off); [inl|]. destruct (negb (wall_in_range (W - off * MEG))); [inl|].
    pose proof (add_duration_exn (W - off * MEG) 0 0 0 0 h mi s us) as H. destruct (py_add_duration _ _ _ _ _ _ _ _ _); [|exact H].
    destruct (wall_in_range _); inl.
Qed.

Lemma interval_new_exn b Wa oa Wb ob : exn_in [E_ValueError; E_OverflowError] (interval_new b Wa oa Wb ob).
Proof. unfold interval_new. brk; inl. Qed.
Lemma interval_init_exn rs Wa oa Wb ob : exn_in [E_ValueError; E_OverflowError] (interval_init rs Wa oa Wb ob).
Proof. unfold interval_init. brk; inl. Qed.

Definition ASM : list exn := [E_ValueError; E_OverflowError; E_TypeError; E_AttributeError].
Lemma inclVO : incl [E_ValueError; E_OverflowError] ASM. Proof. intros e [<-|[<-|[]]]; simpl; auto. Qed.

Lemma assemble_rs_exn o f : rs_form f -> exn_in ASM (assemble true o f).
Proof.
  assert (VO : forall A (r : result A), exn_in [E_ValueError; E_OverflowError] r -> exn_in ASM r).
  { intros A r. apply exn_in_weaken, inclVO. }
  destruct f as [a b|a d|d b]; unfold assemble, rs_form.
  - destruct a as [p| |]; try contradiction. destruct b as [q| |]; try contradiction. intros _.
    destruct ((p_kind p =? 1) && (p_kind q =? 1)).
    + apply exn_in_bind; [apply VO, interval_new_exn|intros _].
      apply exn_in_bind; [apply VO, interval_init_exn|intros _; exact I].
    + destruct ((p_kind p =? 1) || (p_kind q =? 1)); [simpl; auto|]. destruct ((p_kind p =? 2) && (p_kind q =? 2)); simpl; auto.
  - destruct a as [p| |]; try contradiction. intros Hd.
    apply exn_in_bind; [destruct d; simpl in *; try contradiction; auto|intros parts].
    destruct (p_kind p =? 1); [|simpl; auto].
    apply exn_in_bind; [apply VO, dt_add_exn|intros W'].
    apply exn_in_bind; [apply VO, interval_new_exn|intros _].
    apply exn_in_bind; [apply VO, interval_init_exn|intros _; exact I].
  - intros [Hd Hb]. destruct b as [p| |]; try (simpl; auto; fail).
    apply exn_in_bind; [destruct d; simpl in *; try contradiction; auto|intros parts].
    destruct (p_kind p =? 1); [|simpl; auto].
    apply exn_in_bind; [apply VO, dt_add_exn|intros W'].
    apply exn_in_bind; [apply VO, interval_new_exn|intros _].
    apply exn_in_bind; [apply VO, interval_init_exn|intros _; exact I].
Qed.
