(* Proofs/DropInGlueFacts.v — C11: the override models pd_create / pd_replace / pd_instance / pd_astimezone and fixed_utcoffset / fixed_dst / fixed_fromutc of
   Model/DropIn.v against the TRANSLATED bodies of DateTime.create / replace / instance / astimezone and FixedTimezone.utcoffset / fromutc (Gen/TzGlue.v, translated
   from /repo on every run by g15_tz_glue.py and proved equal to Model/TzConvert.v in Proofs/TzGlueFacts.v) and FixedTimezone.dst (Gen/DropInMethods.v).
   Bridge between the two value models: a glue timezone object t is the tzinfo tzi_of t (identity, fixed flag, table); a glue datetime d is the value dtv_of d. *)
From Coq Require Import ZArith List Bool Lia.
From PV Require Import Lib.PyBase Spec.Cal Spec.Zone Spec.NativeDT Model.TzConvert Model.TzGlueObj Gen.TzGlue Proofs.TzGlueFacts.
From PV Require Import Model.DropIn Model.DropInPrims Gen.DropInMethods Proofs.C11Facts.
Import ListNotations.
Open Scope Z_scope.

Definition tzi_of (t : gtz) : tzi := mktzi (gz_id t) (gz_fixed t) (gz_zone t).
Definition dtv_of (d : gdt) : dtv := mkdtv (g_wall d) (g_foldb d) (option_map tzi_of (g_tz d)).
Definition rmap {A B : Type} (f : A -> B) (r : result A) : result B := match r with Ok a => Ok (f a) | Raise e => Raise e end.

Lemma dtv_of_dt_of W f tzo : dtv_of (dt_of W f tzo) = mkdtv W f (option_map tzi_of tzo).
Proof. unfold dtv_of. rewrite foldb_b2z. reflexivity. Qed.

(* the common core: building a DateTime from wall fields in a timezone (g_build = what the translated create computes) is pd_create *)
Lemma g_build_pd_create tzo W f : rmap dtv_of (g_build tzo W f false) = pd_create (option_map tzi_of tzo) W f.
Proof.
  destruct tzo as [t|]; cbn [g_build option_map pd_create rmap].
  - cbn [tzi_of tz_zone tz_fixed]. destruct (create (gz_zone t) (gz_fixed t) W f false) as [[W' f']|e]; cbn [res_of rmap]; [|reflexivity].
    rewrite dtv_of_dt_of. reflexivity.
  - rewrite dtv_of_dt_of. reflexivity.
Qed.

(* DateTime.create(fields, tz, fold) *)
Theorem glue_create_is_pd_create tzo y m d h mi s us f : fields_ok y m d h mi s us -> wall_in_range (wall_of y m d h mi s us) = true ->
  rmap dtv_of (glue_DateTime_create y m d h mi s us tzo (Z.b2z f) false) = pd_create (option_map tzi_of tzo) (wall_of y m d h mi s us) f.
Proof. intros F R. rewrite glue_create_fields by assumption. apply g_build_pd_create. Qed.

(* DateTime.replace(year=.., .., fold=..) (tzinfo not passed): every argument may be omitted (None: the field of self) *)
Definition dflt (o : option Z) (v : Z) : Z := match o with None => v | Some w => w end.
Theorem glue_replace_is_pd_replace x oy om od oh omi os ous (ofold : option bool) :
  let y := dflt oy (g_year x) in let m := dflt om (g_month x) in let d := dflt od (g_day x) in let h := dflt oh (g_hour x) in
  let mi := dflt omi (g_minute x) in let s := dflt os (g_second x) in let us := dflt ous (g_microsecond x) in
  let f := match ofold with None => g_foldb x | Some f => f end in
  (g_fold x = 0 \/ g_fold x = 1) -> fields_ok y m d h mi s us -> wall_in_range (wall_of y m d h mi s us) = true ->
  rmap dtv_of (glue_DateTime_replace_keep x oy om od oh omi os ous (option_map Z.b2z ofold)) = pd_replace (dtv_of x) (wall_of y m d h mi s us) f.
Proof.
  intros y m d h mi s us f Hf F R. unfold glue_DateTime_replace_keep. cbv zeta.
  assert (T : (if negb match g_tz x with None => true | Some _ => false end then g_tz x else g_tz x) = g_tz x) by (destruct (g_tz x); reflexivity). rewrite T.
  assert (Ef : match option_map Z.b2z ofold with None => g_fold x | Some w_ => w_ end = Z.b2z f).
  { subst f. destruct ofold as [b|]; [reflexivity|]. cbn [option_map]. unfold g_foldb. destruct Hf as [E|E]; rewrite E; reflexivity. }
  rewrite Ef. fold (dflt oy (g_year x)) (dflt om (g_month x)) (dflt od (g_day x)) (dflt oh (g_hour x)) (dflt omi (g_minute x)) (dflt os (g_second x)) (dflt ous (g_microsecond x)).
  fold y m d h mi s us. rewrite glue_create_fields by assumption.
  unfold pd_replace. cbn [dtv_of v_tz]. rewrite <- g_build_pd_create. destruct (g_build (g_tz x) _ f false); reflexivity.
Qed.

(* DateTime.instance(dt, tz=None): a value carrying a pendulum timezone object (pid = its identity), or a naive value of either fold (the fold is kept) *)
Theorem glue_instance_is_pd_instance tzo W f pid : wall_in_range W = true ->
  match tzo with Some t => pid = gz_id t | None => True end ->
  rmap dtv_of (glue_DateTime_instance (dt_of W f tzo) None) = pd_instance (dtv_of (dt_of W f tzo)) pid.
Proof.
  intros R H. rewrite glue_instance_spec by exact R. rewrite dtv_of_dt_of. unfold pd_instance. cbn [v_tz v_wall v_fold].
  destruct tzo as [t|]; cbn [opt_tz_or option_map].
  - subst pid. rewrite (g_build_pd_create (Some t)). reflexivity.
  - cbn [g_build rmap]. rewrite dtv_of_dt_of. reflexivity.
Qed.

(* DateTime.astimezone(tz) on an aware value: the translated body (super().astimezone(tz) then the rebuilt DateTime) gives the value pd_astimezone gives *)
Theorem glue_astimezone_is_pd_astimezone t1 tz W f isp : gtz_ok t1 -> gtz_ok tz -> same_obj t1 tz -> tz_ok (tzi_of tz) -> wall_in_range W = true ->
  match pd_astimezone (dtv_of (dt_of W f (Some t1))) (tzi_of tz) isp, rmap dtv_of (glue_DateTime_astimezone (dt_of W f (Some t1)) tz) with
  | Ok (ty, r, _), Ok r' => r = r' /\ ty = TyDateTime
  | Raise e, Raise e' => e = e'
  | _, _ => False
  end.
Proof.
  intros O1 O2 S K R. rewrite glue_astimezone by assumption.
  pose proof (astimezone_native (dtv_of (dt_of W f (Some t1))) (tzi_of tz) isp K) as H.
  assert (E : native_astimezone (dtv_of (dt_of W f (Some t1))) (tzi_of tz) = rmap dtv_of (res_of (Some tz) (in_tz (gtz_is t1 tz) (gz_zone t1) (gz_zone tz) W f))).
  { rewrite dtv_of_dt_of. unfold native_astimezone. cbn [v_tz option_map tzi_of tz_id tz_zone v_wall v_fold]. fold (gtz_is t1 tz).
    destruct (in_tz _ _ _ _ _) as [[W' f']|e]; cbn [res_of rmap]; [|reflexivity]. rewrite dtv_of_dt_of. reflexivity. }
  rewrite E in H. destruct (rmap dtv_of _) as [r'|e']; destruct (pd_astimezone _ _ _) as [[[ty r] k]|e]; try exact H.
  symmetry. exact H.
Qed.

(* FixedTimezone.utcoffset / dst / fromutc *)
Theorem glue_fixed_is_model tz od d :
  glue_FixedTimezone_utcoffset tz od = MEG * fixed_utcoffset (gz_off tz) /\
  gen_FixedTimezone_dst = fixed_dst (gz_off tz) /\
  glue_FixedTimezone_fromutc tz d = rmap (fun W => mkgdt W 0 (Some tz)) (fixed_fromutc (gz_off tz) (g_wall d)).
Proof.
  split; [reflexivity|]. split; [reflexivity|].
  unfold glue_FixedTimezone_fromutc, fixed_fromutc, nat_add, gz_utcoffset_us. cbv zeta.
  destruct (wall_in_range (g_wall d + MEG * gz_off tz)); reflexivity.
Qed.

Print Assumptions glue_create_is_pd_create.
Print Assumptions glue_replace_is_pd_replace.
Print Assumptions glue_instance_is_pd_instance.
Print Assumptions glue_astimezone_is_pd_astimezone.
Print Assumptions glue_fixed_is_model.
