(* Proofs/C06Thms.v — the C06 theorems, derived from the specification lemmas of C06Spec.v / C06Rust.v. *)
From Coq Require Import ZArith List Bool Lia ZifyBool.
From PV Require Import Lib.Reflect Lib.PyBase Spec.Cal Proofs.CalFacts.
From PV Require Import Gen.Constants Gen.Helpers Gen.RustConstants Model.RustHelpers Model.PdBase Gen.PreciseDiff Model.RustPreciseDiff Model.PdInterval.
From PV Require Import Proofs.C06Facts Proofs.C06Spec Proofs.C06Rust.
Import ListNotations.
Ltac Zify.zify_post_hook ::= Z.to_euclidean_division_equations.
Open Scope Z_scope.

Definition in_ranges (r : pdiff) : Prop :=
  0 <= pd_years r /\ 0 <= pd_months r <= 11 /\ 0 <= pd_days r <= 30 /\ 0 <= pd_hours r <= 23 /\
  0 <= pd_minutes r <= 59 /\ 0 <= pd_seconds r <= 59 /\ 0 <= pd_microseconds r <= 999999.

(* equal operands *)
Lemma py_pd_equal a b : dt_pair a b -> p_wall a = p_wall b -> py_precise_diff a b = Ok (mkPD 0 0 0 0 0 0 0 0).
Proof.
  intros (Wa & Wb & Da & Db & Htz) E. destruct Wa as (Va & Ta & Oa). destruct Wb as (Vb & Tb & Ob).
  assert (Ka : p_key a b a = p_wall a) by (apply key_dt; auto).
  assert (Kb : p_key a b b = p_wall b) by (apply key_dt; auto).
  unfold py_precise_diff. replace (p_eqb a b) with true; [reflexivity|].
  unfold p_eqb, p_comparable, p_aware. rewrite Ka, Kb, Da, Db, Htz, E. rewrite !Bool.eqb_reflx. cbn. lia.
Qed.

(* from the specification and the order of the operands: all components are canonical *)
Lemma spec_ranges a b r : dt_pair a b -> p_wall a < p_wall b -> pd_spec a b r -> in_ranges r.
Proof.
  intros (Wa & Wb & Da & Db & Htz) Hlt S. destruct Wa as (Va & Ta & Oa). destruct Wb as (Vb & Tb & Ob).
  pose proof (wall_le_split a b Ta Tb ltac:(lia)) as Hsplit.
  assert (Hlex := fun H => ord_le_lex a b Va Vb H).
  pose proof (same_date_tod a b) as Hsame. specialize (fun e1 e2 e3 => Hsame e1 e2 e3 Hlt).
  apply valid_dateb_true in Va, Vb.
  pose proof (dim_bounds (p_year b) (p_month b)) as B1.
  pose proof (dim_bounds (prev_y (p_year b) (p_month b)) (prev_m (p_month b))) as B2.
  pose proof (dim_bounds (p_year a) (p_month a)) as B4.
  unfold pd_spec in S. unfold in_ranges.
  destruct (tod b <? tod a) eqn:Eb; lia.
Qed.

Lemma py_pd_ranges a b : dt_pair a b -> p_wall a <= p_wall b ->
  exists r, py_precise_diff a b = Ok r /\ in_ranges r.
Proof.
  intros P Hle. destruct (Z.eq_dec (p_wall a) (p_wall b)) as [E|N].
  - exists (mkPD 0 0 0 0 0 0 0 0). split; [apply py_pd_equal; assumption|]. unfold in_ranges; cbn; lia.
  - pose proof (py_pd_spec a b P ltac:(lia)) as S. destruct (py_precise_diff a b) as [r|]; [|contradiction].
    exists r. split; [reflexivity|]. apply (spec_ranges a b); [assumption|lia|tauto].
Qed.

(* the time-of-day components are exactly the time-of-day difference, with one day borrowed when the end is earlier in its day *)
Lemma py_pd_time a b : dt_pair a b -> p_wall a < p_wall b ->
  exists r, py_precise_diff a b = Ok r /\
    ((pd_hours r * 60 + pd_minutes r) * 60 + pd_seconds r) * 1000000 + pd_microseconds r
      = tod b - tod a + (if tod b <? tod a then us_per_day else 0).
Proof.
  intros P Hlt. pose proof (py_pd_spec a b P Hlt) as S. destruct (py_precise_diff a b) as [r|]; [|contradiction].
  exists r. split; [reflexivity|]. destruct S as [S _]. unfold pd_spec in S. destruct (tod b <? tod a); lia.
Qed.

(* the specification determines the result: two results with the same total_days are equal *)
Lemma spec_unique a b r1 r2 : pd_spec a b r1 -> pd_spec a b r2 -> pd_total_days r1 = pd_total_days r2 -> r1 = r2.
Proof.
  intros S1 S2 Ht. destruct r1 as [y1 m1 d1 h1 i1 s1 u1 t1]. destruct r2 as [y2 m2 d2 h2 i2 s2 u2 t2].
  unfold pd_spec in *. cbn [pd_years pd_months pd_days pd_hours pd_minutes pd_seconds pd_microseconds pd_total_days] in *.
  assert (h1 = h2 /\ i1 = i2 /\ s1 = s2 /\ u1 = u2) as (-> & -> & -> & ->) by lia.
  assert (d1 = d2 /\ m1 = m2 /\ y1 = y2) as (-> & -> & ->) by lia.
  subst. reflexivity.
Qed.

Lemma rs_day_number_eq y m d : 1 <= y -> 1 <= m <= 12 -> rs_day_number y m d = py_day_number y m d.
Proof.
  intros Hy Hm. unfold rs_day_number, py_day_number.
  rewrite (Z.rem_mod_nonneg (m + 9) 12) by lia.
  rewrite (Z.quot_div_nonneg ((m + 9) mod 12) 10) by lia.
  assert (0 <= y - (m + 9) mod 12 / 10) by lia.
  rewrite !Z.quot_div_nonneg by lia. reflexivity.
Qed.

(* the compiled helper and the pure-Python helper agree on ordered zero-offset datetime pairs, every year >= 1 *)
Lemma rs_eq_py a b : dt_pair a b -> 1 <= p_year a -> p_wall a < p_wall b ->
  py_precise_diff a b = Ok (rs_precise_diff a b true).
Proof.
  intros P Hy Hlt. pose proof (py_pd_spec a b P Hlt) as S. pose proof (rs_pd_spec a b P Hy Hlt) as [R Rt].
  destruct (py_precise_diff a b) as [r|]; [|contradiction]. destruct S as [S St].
  f_equal. apply (spec_unique a b); [assumption|assumption|].
  rewrite St, Rt. destruct P as ((Va & Ta & _) & (Vb & Tb & _) & _).
  pose proof (wall_le_split a b Ta Tb ltac:(lia)) as Hs. pose proof (ord_le_lex a b Va Vb) as Hl.
  assert (Hle : p_date_ord a <= p_date_ord b) by (clear - Hs; lia). pose proof (Hl Hle) as Hl2.
  assert (1 <= p_year b) by (clear - Hl2 Hy; lia).
  apply valid_dateb_true in Va, Vb.
  rewrite !rs_day_number_eq by lia. reflexivity.
Qed.

Lemma rs_pd_ranges a b : dt_pair a b -> 1 <= p_year a -> p_wall a < p_wall b -> in_ranges (rs_precise_diff a b true).
Proof. intros P Hy Hlt. apply (spec_ranges a b); [assumption|assumption|]. apply rs_pd_spec; assumption. Qed.

Lemma in_months_of_components d e : iv_in_months (iv_components d e) = 12 * pd_years d + pd_months d.
Proof. unfold iv_components. cbn [iv_in_months]. unfold C_MONTHS_PER_YEAR. lia. Qed.

(* ---------- the defects of the current code, by computation on the faithful models ---------- *)
Definition naive_dt (y m d hh mm ss us : Z) : pdt := mkpdt y m d hh mm ss us 0 false 0 0 true.
Definition aware_dt (y m d hh mm ss us off obj : Z) : pdt := mkpdt y m d hh mm ss us off true 0 obj true.

Definition rebuilds (a b : pdt) (r : pdiff) : Prop :=
  pd_add_duration a (pd_years r) (pd_months r) 0 (pd_days r) (pd_hours r) (pd_minutes r) (pd_seconds r) (pd_microseconds r) = Ok b.

Lemma dt_pair_naive y1 m1 d1 y2 m2 d2 :
  valid_dateb y1 m1 d1 = true -> valid_dateb y2 m2 d2 = true -> dt_pair (naive_dt y1 m1 d1 0 0 0 0) (naive_dt y2 m2 d2 0 0 0 0).
Proof. intros V1 V2. unfold dt_pair, wf_op, wf_time, naive_dt; cbn. repeat split; auto; lia. Qed.

(* 2021-05-02 -> 2021-06-01: "1 month 0 days", and start + 1 month = 2021-06-02 *)
Lemma rebuild_refuted : exists a b r, dt_pair a b /\ p_wall a <= p_wall b /\ py_precise_diff a b = Ok r /\ in_ranges r /\ ~ rebuilds a b r.
Proof.
  exists (naive_dt 2021 5 2 0 0 0 0), (naive_dt 2021 6 1 0 0 0 0), (mkPD 0 1 0 0 0 0 0 30).
  split; [apply dt_pair_naive; reflexivity|]. split; [vm_compute; discriminate|]. split; [vm_compute; reflexivity|].
  split; [unfold in_ranges; cbn; lia|]. unfold rebuilds. vm_compute. discriminate.
Qed.

(* 2021-01-30 -> 2021-02-27: "1 month", start + 1 month = 2021-02-28 (the arm is wrong also when the start day exceeds the end month) *)
Lemma rebuild_refuted_clamped : exists a b r, dt_pair a b /\ p_wall a <= p_wall b /\ py_precise_diff a b = Ok r /\ ~ rebuilds a b r.
Proof.
  exists (naive_dt 2021 1 30 0 0 0 0), (naive_dt 2021 2 27 0 0 0 0), (mkPD 0 1 0 0 0 0 0 28).
  split; [apply dt_pair_naive; reflexivity|]. split; [vm_compute; discriminate|]. split; [vm_compute; reflexivity|].
  unfold rebuilds. vm_compute. discriminate.
Qed.

(* the same witness through the Rust model *)
Lemma rs_rebuild_refuted : exists a b, dt_pair a b /\ p_wall a <= p_wall b /\ ~ rebuilds a b (rs_precise_diff a b true).
Proof.
  exists (naive_dt 2021 5 2 0 0 0 0), (naive_dt 2021 6 1 0 0 0 0).
  split; [apply dt_pair_naive; reflexivity|]. split; [vm_compute; discriminate|]. unfold rebuilds. vm_compute. discriminate.
Qed.

(* a genuine clamp is rebuilt: 2021-01-31 -> 2021-02-28 is "1 month" and start + 1 month = 2021-02-28 *)
Example rebuild_genuine_clamp :
  py_precise_diff (naive_dt 2021 1 31 0 0 0 0) (naive_dt 2021 2 28 0 0 0 0) = Ok (mkPD 0 1 0 0 0 0 0 28) /\
  rebuilds (naive_dt 2021 1 31 0 0 0 0) (naive_dt 2021 2 28 0 0 0 0) (mkPD 0 1 0 0 0 0 0 28).
Proof. split; vm_compute; reflexivity. Qed.

(* cross-zone: 2021-03-01T00:30+01:00 vs 2021-04-01T00:00Z — Python 1 month 3 days 30 min, Rust 1 month 0 days 30 min *)
Lemma rs_cross_zone_refuted : exists a b,
  py_precise_diff a b = Ok (mkPD 0 1 3 0 30 0 0 31) /\ rs_precise_diff a b true = mkPD 0 1 0 0 30 0 0 31.
Proof.
  exists (aware_dt 2021 3 1 0 30 0 0 3600 2), (aware_dt 2021 4 1 0 0 0 0 0 1). split; vm_compute; reflexivity.
Qed.

(* the hypotheses of the theorems are satisfiable *)
Example domain_inhabited : dt_pair (naive_dt 2020 2 29 23 59 59 999999) (naive_dt 2021 3 1 0 0 0 0) /\
  p_wall (naive_dt 2020 2 29 23 59 59 999999) < p_wall (naive_dt 2021 3 1 0 0 0 0).
Proof. split; [unfold dt_pair, wf_op, wf_time, naive_dt; cbn; repeat split; auto; lia | vm_compute; reflexivity]. Qed.
