(* Proofs/C06Thms.v — the C06 theorems, derived from the specification lemmas of C06Spec.v / C06Rust.v. *)
From Coq Require Import ZArith List Bool Lia ZifyBool.
From PV Require Import Lib.Reflect Lib.PyBase Spec.Cal Proofs.CalFacts.
From PV Require Import Gen.Constants Gen.Helpers Gen.RustConstants Model.RustHelpers Model.PdBase Gen.PreciseDiff Model.RustPreciseDiff Model.PdInterval.
From PV Require Import Proofs.C06Facts Proofs.C06Spec Proofs.C06Dates Proofs.C06Rebuild Proofs.C06Interval Proofs.C06Rust.
Import ListNotations.
Ltac Zify.zify_post_hook ::= Z.to_euclidean_division_equations.
Open Scope Z_scope.

(* equal operands *)
Lemma py_pd_equal a b : dt_pair a b -> p_wall a = p_wall b -> py_precise_diff a b = Ok (mkPD 0 0 0 0 0 0 0 0).
Proof.
  intros (Wa & Wb & Da & Db & Htz) E. destruct Wa as (Va & Ta & Oa). destruct Wb as (Vb & Tb & Ob).
  assert (Ka : p_key a b a = p_wall a) by (apply key_dt; auto).
  assert (Kb : p_key a b b = p_wall b) by (apply key_dt; auto).
  unfold py_precise_diff. replace (p_eqb a b) with true; [reflexivity|].
  unfold p_eqb, p_comparable, p_aware. rewrite Ka, Kb, Da, Db, Htz, E. rewrite !Bool.eqb_reflx. cbn. lia.
Qed.

Lemma py_pd_ranges a b : dt_pair a b -> p_wall a <= p_wall b ->
  exists r, py_precise_diff a b = Ok r /\ in_ranges r.
Proof.
  intros P Hle. destruct (Z.eq_dec (p_wall a) (p_wall b)) as [E|N].
  - exists (mkPD 0 0 0 0 0 0 0 0). split; [apply py_pd_equal; assumption|]. unfold in_ranges; cbn; lia.
  - pose proof (py_pd_spec a b P ltac:(lia)) as S. destruct (py_precise_diff a b) as [r|]; [|contradiction].
    exists r. split; [reflexivity|]. apply (spec_ranges a b); [apply P|apply P|lia|tauto].
Qed.

(* the time-of-day components are exactly the time-of-day difference, with one day borrowed when the end is earlier in its day *)
Lemma py_pd_time a b : dt_pair a b -> p_wall a < p_wall b ->
  exists r, py_precise_diff a b = Ok r /\
    ((pd_hours r * 60 + pd_minutes r) * 60 + pd_seconds r) * 1000000 + pd_microseconds r
      = tod b - tod a + (if tod b <? tod a then us_per_day else 0).
Proof.
  intros P Hlt. pose proof (py_pd_spec a b P Hlt) as S. destruct (py_precise_diff a b) as [r|]; [|contradiction].
  exists r. split; [reflexivity|]. destruct S as [S _]. unfold pd_spec in S. destruct (tod b <? tod a); lia.
Qed.

(* the specification determines the result: two results with the same total_days are equal *)
Lemma spec_unique a b r1 r2 : pd_spec a b r1 -> pd_spec a b r2 -> pd_total_days r1 = pd_total_days r2 -> r1 = r2.
Proof.
  intros S1 S2 Ht. destruct r1 as [y1 m1 d1 h1 i1 s1 u1 t1]. destruct r2 as [y2 m2 d2 h2 i2 s2 u2 t2].
  unfold pd_spec in *. cbn [pd_years pd_months pd_days pd_hours pd_minutes pd_seconds pd_microseconds pd_total_days] in *.
  assert (h1 = h2 /\ i1 = i2 /\ s1 = s2 /\ u1 = u2) as (-> & -> & -> & ->) by lia.
  assert (d1 = d2 /\ m1 = m2 /\ y1 = y2) as (-> & -> & ->) by lia.
  subst. reflexivity.
Qed.

Lemma rs_day_number_eq y m d : 1 <= y -> 1 <= m <= 12 -> rs_day_number y m d = py_day_number y m d.
Proof.
  intros Hy Hm. unfold rs_day_number, py_day_number.
  rewrite (Z.rem_mod_nonneg (m + 9) 12) by lia.
  rewrite (Z.quot_div_nonneg ((m + 9) mod 12) 10) by lia.
  assert (0 <= y - (m + 9) mod 12 / 10) by lia.
  rewrite !Z.quot_div_nonneg by lia. reflexivity.
Qed.

(* the compiled helper and the pure-Python helper agree on ordered zero-offset datetime pairs, every year >= 1 *)
Lemma rs_eq_py a b : dt_pair a b -> 1 <= p_year a -> p_wall a < p_wall b ->
  py_precise_diff a b = Ok (rs_precise_diff a b).
Proof.
  intros P Hy Hlt. pose proof (py_pd_spec a b P Hlt) as S. pose proof (rs_pd_spec a b P Hy Hlt) as [R Rt].
  destruct (py_precise_diff a b) as [r|]; [|contradiction]. destruct S as [S St].
  f_equal. apply (spec_unique a b); [assumption|assumption|].
  rewrite St, Rt. destruct P as ((Va & Ta & _) & (Vb & Tb & _) & _).
  pose proof (wall_le_split a b Ta Tb ltac:(lia)) as Hs. pose proof (ord_le_lex a b Va Vb) as Hl.
  assert (Hle : p_date_ord a <= p_date_ord b) by (clear - Hs; lia). pose proof (Hl Hle) as Hl2.
  assert (1 <= p_year b) by (clear - Hl2 Hy; lia).
  apply valid_dateb_true in Va, Vb.
  rewrite !rs_day_number_eq by lia. reflexivity.
Qed.

Lemma rs_pd_ranges a b : dt_pair a b -> 1 <= p_year a -> p_wall a < p_wall b -> in_ranges (rs_precise_diff a b).
Proof. intros P Hy Hlt. apply (spec_ranges a b); [apply P|apply P|assumption|]. apply rs_pd_spec; assumption. Qed.

Lemma in_months_of_components d e : iv_in_months (iv_components d e) = 12 * pd_years d + pd_months d.
Proof. unfold iv_components. cbn [iv_in_months]. unfold C_MONTHS_PER_YEAR. lia. Qed.

(* ---------- Date operands ---------- *)
Lemma py_pd_equal_date a b : date_pair a b -> p_wall a = p_wall b -> py_precise_diff a b = Ok (mkPD 0 0 0 0 0 0 0 0).
Proof.
  intros (Wa & Wb & Da & Db & Ma & Mb) E.
  unfold py_precise_diff. replace (p_eqb a b) with true; [reflexivity|].
  unfold p_eqb, p_comparable, p_aware. rewrite !key_date by assumption. rewrite Da, Db. cbn [andb Bool.eqb].
  rewrite !p_wall_split, (midnight_tod a Ma), (midnight_tod b Mb) in E. unfold us_per_day in E. lia.
Qed.

Lemma py_pd_ranges_date a b : date_pair a b -> p_wall a <= p_wall b ->
  exists r, py_precise_diff a b = Ok r /\ in_ranges r.
Proof.
  intros P Hle. destruct (Z.eq_dec (p_wall a) (p_wall b)) as [E|N].
  - exists (mkPD 0 0 0 0 0 0 0 0). split; [apply py_pd_equal_date; assumption|]. unfold in_ranges; cbn; lia.
  - pose proof (py_pd_spec_date a b P ltac:(lia)) as S. destruct (py_precise_diff a b) as [r|]; [|contradiction].
    exists r. split; [reflexivity|]. apply (spec_ranges a b); [apply P|apply P|lia|tauto].
Qed.

Lemma rs_eq_py_date a b : date_pair a b -> 1 <= p_year a -> p_wall a < p_wall b ->
  py_precise_diff a b = Ok (rs_precise_diff a b).
Proof.
  intros P Hy Hlt. pose proof (py_pd_spec_date a b P Hlt) as S. pose proof (rs_pd_spec_date a b P Hy Hlt) as [R Rt].
  destruct (py_precise_diff a b) as [r|]; [|contradiction]. destruct S as [S St].
  f_equal. apply (spec_unique a b); [assumption|assumption|].
  rewrite St, Rt. destruct P as ((Va & Ta & _) & (Vb & Tb & _) & _).
  pose proof (wall_le_split a b Ta Tb ltac:(lia)) as Hs. pose proof (ord_le_lex a b Va Vb) as Hl.
  assert (Hle : p_date_ord a <= p_date_ord b) by (clear - Hs; lia). pose proof (Hl Hle) as Hl2.
  assert (1 <= p_year b) by (clear - Hl2 Hy; lia).
  apply valid_dateb_true in Va, Vb.
  rewrite !rs_day_number_eq by lia. reflexivity.
Qed.

(* ---------- rebuilding the end: a + (b - a) = b ---------- *)
(* the operands of the statement: two datetimes (naive or both aware with zero offset) or two plain dates *)
Definition op_pair (a b : pdt) : Prop := dt_pair a b \/ date_pair a b.

Lemma op_pair_wf a b : op_pair a b -> wf_op a /\ wf_op b /\ kind_ok a b.
Proof.
  intros [(Wa & Wb & Da & _) | (Wa & Wb & Da & _ & Ma & Mb)]; (split; [assumption|]; split; [assumption|]).
  - left. assumption.
  - right. auto.
Qed.

Lemma py_pd_spec_any a b : op_pair a b -> p_wall a < p_wall b ->
  match py_precise_diff a b with Ok r => pd_spec a b r | Raise _ => False end.
Proof.
  intros [P|P] Hlt.
  - pose proof (py_pd_spec a b P Hlt) as S. destruct (py_precise_diff a b); tauto.
  - pose proof (py_pd_spec_date a b P Hlt) as S. destruct (py_precise_diff a b); tauto.
Qed.

(* the pure-Python helper (translated): for every ordered pair of the domain, every year 1..9999 *)
Lemma py_pd_rebuild a b : op_pair a b -> 1 <= p_year a -> p_year b <= 9999 -> p_wall a <= p_wall b ->
  exists r, py_precise_diff a b = Ok r /\ in_ranges r /\ rebuilds a b r.
Proof.
  intros P Hya Hyb Hle. pose proof (op_pair_wf a b P) as (Wa & Wb & K).
  destruct (Z.eq_dec (p_wall a) (p_wall b)) as [E|N].
  - exists (mkPD 0 0 0 0 0 0 0 0). split; [destruct P; [apply py_pd_equal | apply py_pd_equal_date]; assumption|].
    split; [unfold in_ranges; cbn; lia|]. apply zero_rebuilds; try assumption.
    pose proof (wall_eq_fields a b Wa Wb E) as (E1 & _). lia.
  - assert (Hlt : p_wall a < p_wall b) by lia.
    pose proof (py_pd_spec_any a b P Hlt) as S. destruct (py_precise_diff a b) as [r|]; [|contradiction].
    exists r. split; [reflexivity|]. split; [apply (spec_ranges a b); assumption|]. apply spec_rebuilds; assumption.
Qed.

(* the compiled helper (hand model) *)
Lemma lex_gtb_refl l : lex_gtb l l = false.
Proof. induction l as [|x l IH]; [reflexivity|]. cbn [lex_gtb]. rewrite Z.gtb_ltb, Z.ltb_irrefl. exact IH. Qed.

Lemma rs_core_same i : rs_core i i 1 0 = mkPD 0 0 0 0 0 0 0 0.
Proof. unfold rs_core. rewrite !Z.sub_diag. change (0 <? 0) with false. cbv beta iota zeta. reflexivity. Qed.

Lemma rs_pd_equal a b : op_pair a b -> p_wall a = p_wall b -> rs_precise_diff a b = mkPD 0 0 0 0 0 0 0 0.
Proof.
  intros P E. pose proof (op_pair_wf a b P) as (Wa & Wb & _).
  pose proof (wall_eq_fields a b Wa Wb E) as (E1 & E2 & E3 & E4 & E5 & E6 & E7).
  unfold rs_precise_diff.
  destruct P as [(_ & _ & Da & Db & _) | (_ & _ & Da & Db & _)].
  - rewrite Db, Da. destruct Wa as (_ & Ta & Oa). destruct Wb as (_ & Tb & Ob).
    rewrite (rs_info_plain a) by assumption. rewrite (rs_info_plain b) by assumption.
    rewrite <- E1, <- E2, <- E3, <- E4, <- E5, <- E6, <- E7. rewrite Z.sub_diag.
    unfold rs_gtb. rewrite lex_gtb_refl. apply rs_core_same.
  - rewrite Db, Da. unfold rs_info.
    rewrite <- E1, <- E2, <- E3. rewrite Z.sub_diag.
    unfold rs_gtb. rewrite lex_gtb_refl. apply rs_core_same.
Qed.

Lemma rs_pd_rebuild a b : op_pair a b -> 1 <= p_year a -> p_year b <= 9999 -> p_wall a <= p_wall b ->
  in_ranges (rs_precise_diff a b) /\ rebuilds a b (rs_precise_diff a b).
Proof.
  intros P Hya Hyb Hle. pose proof (op_pair_wf a b P) as (Wa & Wb & K).
  destruct (Z.eq_dec (p_wall a) (p_wall b)) as [E|N].
  - rewrite (rs_pd_equal a b P E). split; [unfold in_ranges; cbn; lia|].
    apply zero_rebuilds; try assumption. pose proof (wall_eq_fields a b Wa Wb E) as (E1 & _). lia.
  - assert (Hlt : p_wall a < p_wall b) by lia.
    assert (S : pd_spec a b (rs_precise_diff a b)).
    { destruct P as [P|P]; [apply rs_pd_spec | apply rs_pd_spec_date]; assumption. }
    split; [apply (spec_ranges a b); assumption|]. apply spec_rebuilds; assumption.
Qed.

(* when both operands carry the same tzinfo the rebuilt value is the end itself *)
Definition same_tzinfo (a b : pdt) : Prop := p_has_tz a = p_has_tz b /\ p_tzname a = p_tzname b /\ p_tzobj a = p_tzobj b.

Lemma op_pair_retz a b : op_pair a b -> same_tzinfo a b -> p_retz a b = b.
Proof.
  intros P (H1 & H2 & H3). apply p_retz_same; try assumption.
  - destruct P as [((_ & _ & Oa) & (_ & _ & Ob) & _) | ((_ & _ & Oa) & (_ & _ & Ob) & _)]; lia.
  - destruct P as [(_ & _ & Da & Db & _) | (_ & _ & Da & Db & _)]; rewrite Da, Db; reflexivity.
Qed.

Lemma py_pd_rebuild_same a b : op_pair a b -> same_tzinfo a b -> 1 <= p_year a -> p_year b <= 9999 -> p_wall a <= p_wall b ->
  exists r, py_precise_diff a b = Ok r /\
    pd_add_duration a (pd_years r) (pd_months r) 0 (pd_days r) (pd_hours r) (pd_minutes r) (pd_seconds r) (pd_microseconds r) = Ok b.
Proof.
  intros P T Hya Hyb Hle. destruct (py_pd_rebuild a b P Hya Hyb Hle) as (r & Hr & _ & Hb).
  exists r. split; [assumption|]. unfold rebuilds in Hb. rewrite (op_pair_retz a b P T) in Hb. exact Hb.
Qed.

Lemma rs_pd_rebuild_same a b : op_pair a b -> same_tzinfo a b -> 1 <= p_year a -> p_year b <= 9999 -> p_wall a <= p_wall b ->
  let r := rs_precise_diff a b in
  pd_add_duration a (pd_years r) (pd_months r) 0 (pd_days r) (pd_hours r) (pd_minutes r) (pd_seconds r) (pd_microseconds r) = Ok b.
Proof.
  intros P T Hya Hyb Hle. destruct (rs_pd_rebuild a b P Hya Hyb Hle) as (_ & Hb).
  cbv zeta. unfold rebuilds in Hb. rewrite (op_pair_retz a b P T) in Hb. exact Hb.
Qed.

(* ---------- the Interval glue: a + (b - a) and a.add(components of b - a) ---------- *)
Lemma py_iv_rebuild a b : op_pair a b -> 1 <= p_year a -> p_year b <= 9999 -> p_wall a <= p_wall b ->
  exists r, py_precise_diff a b = Ok r /\ dt_add_ivc a (iv_components r (iv_elapsed a b)) = Ok (p_retz a b).
Proof.
  intros P Hya Hyb Hle. pose proof (op_pair_wf a b P) as (Wa & Wb & K).
  destruct (Z.eq_dec (p_wall a) (p_wall b)) as [E|N].
  - exists (mkPD 0 0 0 0 0 0 0 0). split; [destruct P; [apply py_pd_equal | apply py_pd_equal_date]; assumption|].
    apply zero_iv_rebuilds; try assumption. pose proof (wall_eq_fields a b Wa Wb E) as (E1 & _). lia.
  - assert (Hlt : p_wall a < p_wall b) by lia.
    pose proof (py_pd_spec_any a b P Hlt) as S. destruct (py_precise_diff a b) as [r|]; [|contradiction].
    exists r. split; [reflexivity|]. apply spec_iv_rebuilds; assumption.
Qed.

Lemma rs_iv_rebuild a b : op_pair a b -> 1 <= p_year a -> p_year b <= 9999 -> p_wall a <= p_wall b ->
  dt_add_ivc a (iv_components (rs_precise_diff a b) (iv_elapsed a b)) = Ok (p_retz a b).
Proof.
  intros P Hya Hyb Hle. pose proof (op_pair_wf a b P) as (Wa & Wb & K).
  destruct (Z.eq_dec (p_wall a) (p_wall b)) as [E|N].
  - rewrite (rs_pd_equal a b P E).
    apply zero_iv_rebuilds; try assumption. pose proof (wall_eq_fields a b Wa Wb E) as (E1 & _). lia.
  - assert (Hlt : p_wall a < p_wall b) by lia.
    assert (S : pd_spec a b (rs_precise_diff a b)).
    { destruct P as [P|P]; [apply rs_pd_spec | apply rs_pd_spec_date]; assumption. }
    apply spec_iv_rebuilds; assumption.
Qed.

(* ---------- witnesses ---------- *)
Definition naive_dt (y m d hh mm ss us : Z) : pdt := mkpdt y m d hh mm ss us 0 false 0 0 true.
Definition aware_dt (y m d hh mm ss us off obj : Z) : pdt := mkpdt y m d hh mm ss us off true 0 obj true.
Definition plain_date (y m d : Z) : pdt := mkpdt y m d 0 0 0 0 0 false 0 0 false.

Lemma dt_pair_naive y1 m1 d1 y2 m2 d2 :
  valid_dateb y1 m1 d1 = true -> valid_dateb y2 m2 d2 = true -> dt_pair (naive_dt y1 m1 d1 0 0 0 0) (naive_dt y2 m2 d2 0 0 0 0).
Proof. intros V1 V2. unfold dt_pair, wf_op, wf_time, naive_dt; cbn. repeat split; auto; lia. Qed.

(* the former witnesses of finding exact-month-arm, now ordinary cases:
   2021-05-02 -> 2021-06-01 is "30 days" (was "1 month", start + 1 month = 2021-06-02);
   2021-01-30 -> 2021-02-27 is "28 days" (was "1 month", start + 1 month = 2021-02-28) — both backends *)
Example former_witnesses_rebuild :
  py_precise_diff (naive_dt 2021 5 2 0 0 0 0) (naive_dt 2021 6 1 0 0 0 0) = Ok (mkPD 0 0 30 0 0 0 0 30) /\
  rs_precise_diff (naive_dt 2021 5 2 0 0 0 0) (naive_dt 2021 6 1 0 0 0 0) = mkPD 0 0 30 0 0 0 0 30 /\
  rebuilds (naive_dt 2021 5 2 0 0 0 0) (naive_dt 2021 6 1 0 0 0 0) (mkPD 0 0 30 0 0 0 0 30) /\
  py_precise_diff (naive_dt 2021 1 30 0 0 0 0) (naive_dt 2021 2 27 0 0 0 0) = Ok (mkPD 0 0 28 0 0 0 0 28) /\
  rs_precise_diff (naive_dt 2021 1 30 0 0 0 0) (naive_dt 2021 2 27 0 0 0 0) = mkPD 0 0 28 0 0 0 0 28 /\
  rebuilds (naive_dt 2021 1 30 0 0 0 0) (naive_dt 2021 2 27 0 0 0 0) (mkPD 0 0 28 0 0 0 0 28).
Proof. repeat split; vm_compute; reflexivity. Qed.

(* a genuine clamp is still "1 month": 2021-01-31 -> 2021-02-28, and start + 1 month = 2021-02-28 *)
Example rebuild_genuine_clamp :
  py_precise_diff (naive_dt 2021 1 31 0 0 0 0) (naive_dt 2021 2 28 0 0 0 0) = Ok (mkPD 0 1 0 0 0 0 0 28) /\
  rs_precise_diff (naive_dt 2021 1 31 0 0 0 0) (naive_dt 2021 2 28 0 0 0 0) = mkPD 0 1 0 0 0 0 0 28 /\
  rebuilds (naive_dt 2021 1 31 0 0 0 0) (naive_dt 2021 2 28 0 0 0 0) (mkPD 0 1 0 0 0 0 0 28).
Proof. repeat split; vm_compute; reflexivity. Qed.

(* the former witness of finding rs-second-operand-subclass, now an ordinary case: two pendulum.DateTime instances in UTC (named
   zone, one tzinfo object) passed directly, 2021-01-01T10:00 -> 2021-01-01T12:30.  The compiled helper used to treat the second
   operand as a plain date (hours = -10); it now reads its time of day like the first operand's: 2 h 30 min, both backends, and
   the components rebuild the end.  (The model has no "exact type" input any more: p_is_dt is is_type_of for both operands.) *)
Definition utc_named_dt (y m d hh mm ss us : Z) : pdt := mkpdt y m d hh mm ss us 0 true 1 1 true.

Example former_subclass_witness :
  dt_pair (utc_named_dt 2021 1 1 10 0 0 0) (utc_named_dt 2021 1 1 12 30 0 0) /\
  py_precise_diff (utc_named_dt 2021 1 1 10 0 0 0) (utc_named_dt 2021 1 1 12 30 0 0) = Ok (mkPD 0 0 0 2 30 0 0 0) /\
  rs_precise_diff (utc_named_dt 2021 1 1 10 0 0 0) (utc_named_dt 2021 1 1 12 30 0 0) = mkPD 0 0 0 2 30 0 0 0 /\
  rs_precise_diff (utc_named_dt 2021 1 1 12 30 0 0) (utc_named_dt 2021 1 1 10 0 0 0) = mkPD 0 0 0 (-2) (-30) 0 0 0 /\
  rebuilds (utc_named_dt 2021 1 1 10 0 0 0) (utc_named_dt 2021 1 1 12 30 0 0) (mkPD 0 0 0 2 30 0 0 0).
Proof.
  split; [unfold dt_pair, wf_op, wf_time, utc_named_dt; cbn; repeat split; auto; lia|].
  repeat split; vm_compute; reflexivity.
Qed.

(* cross-zone: 2021-03-01T00:30+01:00 vs 2021-04-01T00:00Z — Python 1 month 3 days 30 min, Rust 1 month 0 days 30 min *)
Lemma rs_cross_zone_refuted : exists a b,
  py_precise_diff a b = Ok (mkPD 0 1 3 0 30 0 0 31) /\ rs_precise_diff a b = mkPD 0 1 0 0 30 0 0 31.
Proof.
  exists (aware_dt 2021 3 1 0 30 0 0 3600 2), (aware_dt 2021 4 1 0 0 0 0 0 1). split; vm_compute; reflexivity.
Qed.

(* the hypotheses of the theorems are satisfiable *)
Example domain_inhabited : dt_pair (naive_dt 2020 2 29 23 59 59 999999) (naive_dt 2021 3 1 0 0 0 0) /\
  p_wall (naive_dt 2020 2 29 23 59 59 999999) < p_wall (naive_dt 2021 3 1 0 0 0 0).
Proof. split; [unfold dt_pair, wf_op, wf_time, naive_dt; cbn; repeat split; auto; lia | vm_compute; reflexivity]. Qed.

Example domain_inhabited_rebuild :
  op_pair (naive_dt 1 1 31 23 59 59 999999) (naive_dt 9999 12 31 0 0 0 0) /\ same_tzinfo (naive_dt 1 1 31 23 59 59 999999) (naive_dt 9999 12 31 0 0 0 0) /\
  1 <= p_year (naive_dt 1 1 31 23 59 59 999999) /\ p_year (naive_dt 9999 12 31 0 0 0 0) <= 9999 /\
  p_wall (naive_dt 1 1 31 23 59 59 999999) <= p_wall (naive_dt 9999 12 31 0 0 0 0) /\
  op_pair (plain_date 2020 1 31) (plain_date 2021 3 1) /\ p_wall (plain_date 2020 1 31) <= p_wall (plain_date 2021 3 1).
Proof.
  split; [left; unfold dt_pair, wf_op, wf_time, naive_dt; cbn; repeat split; auto; lia|].
  split; [repeat split|]. split; [cbn; lia|]. split; [cbn; lia|]. split; [vm_compute; discriminate|].
  split; [right; unfold date_pair, wf_op, wf_time, midnight, plain_date; cbn; repeat split; auto; lia | vm_compute; discriminate].
Qed.
