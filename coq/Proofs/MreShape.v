(* Proofs/MreShape.v — shape invariance for the backtracking matcher `mre` of Model/FormatterParse.v (from_format's assembled
   patterns: named groups, classes, `.`, bounded repetition and `*`), the analogue of Proofs/RegexShape.v for that matcher:

   * `mre_sp` : twin of `mre` whose captures are SPANS (characters remaining at the start of the group, length); being relative to
                the END of the input they stay meaningful across the successive matches of the re.sub pass;
   * `mre_text_of_spans`  : the captured texts of `mre` are the substrings of the input at the spans of `mre_sp`;
   * `mre_sp_shape`       : two inputs whose characters are pairwise indistinguishable by the character tests of the pattern (and by
                            the newline test of `.`/`$`) give the same spans;
   * `search_anchored_shape`, `sub_matches_shape` : the two uses of the matcher in Formatter.parse, on any input, are determined by
                            ONE run on a representative of the same shape. *)
From Coq Require Import ZArith List Bool Lia.
From PV Require Import Lib.PyBase Model.FormatterBase Gen.FormatterTables Gen.LocaleTables Model.Formatter Model.FormatterParse.
Import ListNotations.
Open Scope Z_scope.

Definition scap := (str * (nat * nat))%type.
Definition scaps := list scap.

Section MatcherSp.
  Context {A : Type}.
  Fixpoint mre_sp (r : re) (s : str) (cs : scaps) (k : str -> scaps -> option A) {struct r} : option A :=
    match r with
    | Eps => k s cs
    | Chr c => match s with x :: t => if x =? c then k t cs else None | [] => None end
    | Any => match s with x :: t => if x =? 10 then None else k t cs | [] => None end
    | Cls neg rs => match s with x :: t => if xorb neg (in_ranges x rs) then k t cs else None | [] => None end
    | Seq a b => mre_sp a s cs (fun s' cs' => mre_sp b s' cs' k)
    | Alt a b => match mre_sp a s cs k with Some x => Some x | None => mre_sp b s cs k end
    | Rep r' lo hi =>
      (fix rep (lo hi : nat) (s : str) (cs : scaps) {struct hi} : option A :=
         match hi with
         | O => k s cs
         | S hi' =>
           match mre_sp r' s cs (fun s' cs' => rep (Nat.pred lo) hi' s' cs') with
           | Some x => Some x
           | None => match lo with O => k s cs | S _ => None end
           end
         end) lo hi s cs
    | Star r' =>
      (fix star (n : nat) (s : str) (cs : scaps) {struct n} : option A :=
         match n with
         | O => k s cs
         | S n' =>
           match mre_sp r' s cs (fun s' cs' => if (length s' <? length s)%nat then star n' s' cs' else None) with
           | Some x => Some x
           | None => k s cs
           end
         end) (length s) s cs
    | Grp name r' => mre_sp r' s cs (fun s' cs' => k s' ((name, (length s, (length s - length s')%nat)) :: cs'))
    end.
End MatcherSp.

(* controlled unfolding of the two inner fixpoints *)
Definition repF {A C : Type} (f : str -> C -> (str -> C -> option A) -> option A) (k : str -> C -> option A) :=
  fix rep (lo hi : nat) (s : str) (cs : C) {struct hi} : option A :=
    match hi with
    | O => k s cs
    | S hi' =>
      match f s cs (fun s' cs' => rep (Nat.pred lo) hi' s' cs') with
      | Some x => Some x
      | None => match lo with O => k s cs | S _ => None end
      end
    end.
Definition starF {A C : Type} (f : str -> C -> (str -> C -> option A) -> option A) (k : str -> C -> option A) :=
  fix star (n : nat) (s : str) (cs : C) {struct n} : option A :=
    match n with
    | O => k s cs
    | S n' =>
      match f s cs (fun s' cs' => if (length s' <? length s)%nat then star n' s' cs' else None) with
      | Some x => Some x
      | None => k s cs
      end
    end.

Lemma mre_rep {A} r lo hi s cs (k : str -> caps -> option A) : mre (Rep r lo hi) s cs k = repF (mre r) k lo hi s cs.
Proof. reflexivity. Qed.
Lemma mre_sp_rep {A} r lo hi s cs (k : str -> scaps -> option A) : mre_sp (Rep r lo hi) s cs k = repF (mre_sp r) k lo hi s cs.
Proof. reflexivity. Qed.
Lemma mre_star {A} r s cs (k : str -> caps -> option A) : mre (Star r) s cs k = starF (mre r) k (length s) s cs.
Proof. reflexivity. Qed.
Lemma mre_sp_star {A} r s cs (k : str -> scaps -> option A) : mre_sp (Star r) s cs k = starF (mre_sp r) k (length s) s cs.
Proof. reflexivity. Qed.
Lemma repF_O {A C} f k lo s (cs : C) : @repF A C f k lo O s cs = k s cs. Proof. reflexivity. Qed.
Lemma repF_S {A C} f k lo hi s (cs : C) :
  @repF A C f k lo (S hi) s cs =
  match f s cs (fun s' cs' => repF f k (Nat.pred lo) hi s' cs') with
  | Some x => Some x | None => match lo with O => k s cs | S _ => None end end.
Proof. reflexivity. Qed.
Lemma starF_O {A C} f k s (cs : C) : @starF A C f k O s cs = k s cs. Proof. reflexivity. Qed.
Lemma starF_S {A C} f k n s (cs : C) :
  @starF A C f k (S n) s cs =
  match f s cs (fun s' cs' => if (length s' <? length s)%nat then starF f k n s' cs' else None) with
  | Some x => Some x | None => k s cs end.
Proof. reflexivity. Qed.

(* ------------------------------------------------------------------ texts of spans *)
Section TextOfSpans.
  Variable whole : str.
  Definition sub_at (sp : nat * nat) : str := firstn (snd sp) (skipn (length whole - fst sp) whole).
  Definition tx (cs : scaps) : caps := map (fun e => (fst e, sub_at (snd e))) cs.
  (* s is a suffix of the whole input *)
  Definition suffix (s : str) : Prop := skipn (length whole - length s) whole = s.

  Lemma suffix_tl x t : suffix (x :: t) -> suffix t.
  Proof.
    unfold suffix. intros H. cbn [length] in H.
    assert (L : (S (length t) <= length whole)%nat).
    { assert (E : length (skipn (length whole - S (length t)) whole) = S (length t)) by (rewrite H; reflexivity).
      rewrite skipn_length in E. lia. }
    replace (length whole - length t)%nat with (S (length whole - S (length t))) by lia.
    revert H. generalize (length whole - S (length t))%nat. intros n H.
    clear L. revert whole H. induction n as [|n IH]; intros w H.
    - cbn in H. subst w. reflexivity.
    - destruct w as [|a w]; [discriminate H|]. cbn [skipn] in H. apply IH in H. exact H.
  Qed.

  Section WithResults.
    Context {A B : Type}.
    Variable g : B -> A.
    Definition krel (k : str -> caps -> option A) (ks : str -> scaps -> option B) : Prop :=
      forall s cs, suffix s -> k s (tx cs) = option_map g (ks s cs).

    Lemma mre_text_of_spans r : forall s cs k ks, suffix s -> krel k ks ->
      mre r s (tx cs) k = option_map g (mre_sp r s cs ks).
    Proof.
      induction r as [ | c | | neg rs | a IHa b IHb | a IHa b IHb | r IHr lo hi | r IHr | name r IHr ]; intros s cs k ks Hs Hk.
      - apply Hk. exact Hs.
      - cbn [mre mre_sp]. destruct s as [|x t]; [reflexivity|]. destruct (x =? c); [|reflexivity]. apply Hk. eapply suffix_tl. exact Hs.
      - cbn [mre mre_sp]. destruct s as [|x t]; [reflexivity|]. destruct (x =? 10); [reflexivity|]. apply Hk. eapply suffix_tl. exact Hs.
      - cbn [mre mre_sp]. destruct s as [|x t]; [reflexivity|]. destruct (xorb neg (in_ranges x rs)); [|reflexivity].
        apply Hk. eapply suffix_tl. exact Hs.
      - cbn [mre mre_sp]. apply IHa; [exact Hs|]. intros s' cs' Hs'. apply IHb; assumption.
      - cbn [mre mre_sp]. rewrite (IHa s cs k ks Hs Hk). destruct (mre_sp a s cs ks); [reflexivity|]. cbn [option_map]. apply IHb; assumption.
      - rewrite mre_rep, mre_sp_rep. revert lo s cs Hs. induction hi as [|hi IHhi]; intros lo s cs Hs.
        + rewrite !repF_O. apply Hk. exact Hs.
        + rewrite !repF_S. rewrite (IHr s cs _ (fun s' cs' => repF (mre_sp r) ks (Nat.pred lo) hi s' cs') Hs).
          * destruct (mre_sp r s cs _); [reflexivity|]. cbn [option_map]. destruct lo; [apply Hk; exact Hs|reflexivity].
          * intros s' cs' Hs'. apply IHhi. exact Hs'.
      - rewrite mre_star, mre_sp_star. generalize (length s). intros n. revert s cs Hs.
        induction n as [|n IHn]; intros s cs Hs.
        + rewrite !starF_O. apply Hk. exact Hs.
        + rewrite !starF_S.
          rewrite (IHr s cs _ (fun s' cs' => if (length s' <? length s)%nat then starF (mre_sp r) ks n s' cs' else None) Hs).
          * destruct (mre_sp r s cs _); [reflexivity|]. cbn [option_map]. apply Hk. exact Hs.
          * intros s' cs' Hs'. destruct (length s' <? length s)%nat; [apply IHn; exact Hs'|reflexivity].
      - cbn [mre mre_sp]. apply IHr; [exact Hs|]. intros s' cs' Hs'.
        rewrite <- (Hk s' _ Hs'). cbn [tx map fst snd]. unfold sub_at. cbn [fst snd]. rewrite Hs. reflexivity.
    Qed.
  End WithResults.
End TextOfSpans.

(* ------------------------------------------------------------------ shape invariance *)
Fixpoint simb (r : re) (x x' : Z) : bool :=
  match r with
  | Eps => true
  | Chr c => Bool.eqb (x =? c) (x' =? c)
  | Any => Bool.eqb (x =? 10) (x' =? 10)
  | Cls _ rs => Bool.eqb (in_ranges x rs) (in_ranges x' rs)
  | Seq a b | Alt a b => simb a x x' && simb b x x'
  | Rep a _ _ | Star a | Grp _ a => simb a x x'
  end.
(* indistinguishable by the tests of r and by the newline test of `$` *)
Definition simnl (r : re) (x x' : Z) : bool := simb r x x' && Bool.eqb (x =? 10) (x' =? 10).

Lemma simb_refl r x : simb r x x = true.
Proof. induction r; cbn [simb]; try reflexivity; try apply eqb_reflx; try assumption; rewrite ?IHr1, ?IHr2; reflexivity. Qed.
Lemma simnl_refl r x : simnl r x x = true.
Proof. unfold simnl. rewrite simb_refl, eqb_reflx. reflexivity. Qed.

Section Shape.
  Context {A : Type}.
  Variable R : Z -> Z -> Prop.
  Definition kagree (k k' : str -> scaps -> option A) : Prop := forall t t' cs, Forall2 R t t' -> k t cs = k' t' cs.

  Lemma Forall2_len (t t' : str) : Forall2 R t t' -> length t = length t'.
  Proof. induction 1; cbn; congruence. Qed.

  Lemma mre_sp_shape q : (forall x x', R x x' -> simb q x x' = true) ->
    forall s s' cs k k', Forall2 R s s' -> kagree k k' -> mre_sp q s cs k = mre_sp q s' cs k'.
  Proof.
    induction q as [ | c | | neg rs | a IHa b IHb | a IHa b IHb | r IHr lo hi | r IHr | name r IHr ]; intros HR s s' cs k k' F Hk.
    - apply Hk. exact F.
    - cbn [mre_sp]. destruct F as [|x x' t t' Hx Ft]; [reflexivity|].
      pose proof (HR x x' Hx) as E. cbn [simb] in E. apply eqb_prop in E. rewrite E. destruct (x' =? c); [apply Hk; exact Ft|reflexivity].
    - cbn [mre_sp]. destruct F as [|x x' t t' Hx Ft]; [reflexivity|].
      pose proof (HR x x' Hx) as E. cbn [simb] in E. apply eqb_prop in E. rewrite E. destruct (x' =? 10); [reflexivity|apply Hk; exact Ft].
    - cbn [mre_sp]. destruct F as [|x x' t t' Hx Ft]; [reflexivity|].
      pose proof (HR x x' Hx) as E. cbn [simb] in E. apply eqb_prop in E. rewrite E.
      destruct (xorb neg (in_ranges x' rs)); [apply Hk; exact Ft|reflexivity].
    - assert (HRa : forall x x', R x x' -> simb a x x' = true)
        by (intros x x' Hx; pose proof (HR x x' Hx) as E; cbn [simb] in E; apply andb_true_iff in E; tauto).
      assert (HRb : forall x x', R x x' -> simb b x x' = true)
        by (intros x x' Hx; pose proof (HR x x' Hx) as E; cbn [simb] in E; apply andb_true_iff in E; tauto).
      cbn [mre_sp]. apply IHa; [exact HRa|exact F|]. intros t t' cs' Ft. apply IHb; assumption.
    - assert (HRa : forall x x', R x x' -> simb a x x' = true)
        by (intros x x' Hx; pose proof (HR x x' Hx) as E; cbn [simb] in E; apply andb_true_iff in E; tauto).
      assert (HRb : forall x x', R x x' -> simb b x x' = true)
        by (intros x x' Hx; pose proof (HR x x' Hx) as E; cbn [simb] in E; apply andb_true_iff in E; tauto).
      cbn [mre_sp]. rewrite (IHa HRa s s' cs k k' F Hk). destruct (mre_sp a s' cs k'); [reflexivity|]. apply IHb; assumption.
    - cbn [simb] in HR. rewrite !mre_sp_rep. revert lo s s' cs F. induction hi as [|hi IHhi]; intros lo s s' cs F.
      + rewrite !repF_O. apply Hk. exact F.
      + rewrite !repF_S. rewrite (IHr HR s s' cs _ (fun t cs' => repF (mre_sp r) k' (Nat.pred lo) hi t cs') F).
        * destruct (mre_sp r s' cs _); [reflexivity|]. destruct lo; [apply Hk; exact F|reflexivity].
        * intros t t' cs' Ft. apply IHhi. exact Ft.
    - cbn [simb] in HR. rewrite !mre_sp_star. rewrite <- (Forall2_len s s' F). generalize (length s). intros n.
      revert s s' cs F. induction n as [|n IHn]; intros s s' cs F.
      + rewrite !starF_O. apply Hk. exact F.
      + rewrite !starF_S.
        rewrite (IHr HR s s' cs _ (fun t cs' => if (length t <? length s')%nat then starF (mre_sp r) k' n t cs' else None) F).
        * destruct (mre_sp r s' cs _); [reflexivity|]. apply Hk. exact F.
        * intros t t' cs' Ft. rewrite (Forall2_len t t' Ft), (Forall2_len s s' F).
          destruct (length t' <? length s')%nat; [apply IHn; exact Ft|reflexivity].
    - cbn [simb] in HR. cbn [mre_sp]. apply IHr; [exact HR|exact F|]. intros t t' cs' Ft.
      rewrite (Forall2_len s s' F), (Forall2_len t t' Ft). apply Hk. exact Ft.
  Qed.
End Shape.

(* ------------------------------------------------------------------ the two uses of the matcher in Formatter.parse *)
Definition simR (r : re) (x x' : Z) : Prop := simnl r x x' = true.
Lemma simR_simb r x x' : simR r x x' -> simb r x x' = true.
Proof. unfold simR, simnl. intros H. apply andb_true_iff in H. tauto. Qed.
Lemma simR_nl r x x' : simR r x x' -> (x =? 10) = (x' =? 10).
Proof. unfold simR, simnl. intros H. apply andb_true_iff in H. destruct H as [_ H]. apply eqb_prop. exact H. Qed.

Lemma at_end_char s : at_end s = match s with [] => true | [x] => x =? 10 | _ :: _ :: _ => false end.
Proof.
  destruct s as [|x [|y t]]; try reflexivity; destruct x as [|p|p]; try reflexivity;
    do 5 (try (destruct p as [p|p|]; try reflexivity)).
Qed.

Lemma at_end_shape r t t' : Forall2 (simR r) t t' -> at_end t = at_end t'.
Proof.
  intros F. rewrite !at_end_char. destruct F as [|x x' u u' Hx Fu]; [reflexivity|]. destruct Fu as [|y y' v v' Hy Fv]; [|reflexivity].
  exact (simR_nl r x x' Hx).
Qed.

Lemma suffix_self s : suffix s s.
Proof. unfold suffix. rewrite Nat.sub_diag. reflexivity. Qed.

(* re.search("^" + pattern + "$", text): same answer on inputs of the same shape *)
Theorem search_anchored_shape r s0 s : Forall2 (simR r) s0 s -> search_anchored r s = search_anchored r s0.
Proof.
  intros F. unfold search_anchored.
  set (k := fun (s' : str) (_ : caps) => if at_end s' then Some tt else None).
  set (ks := fun (s' : str) (_ : scaps) => if at_end s' then Some tt else None).
  assert (E : forall w, mre r w [] k = mre_sp r w [] ks).
  { intros w. change (@nil (str * str)) with (tx w []).
    rewrite (mre_text_of_spans w (fun x : unit => x) r w [] k ks (suffix_self w)).
    - destruct (mre_sp r w [] ks); reflexivity.
    - intros s' cs _. unfold k, ks. destruct (at_end s'); reflexivity. }
  rewrite !E. rewrite (mre_sp_shape (simR r) r (simR_simb r) s0 s [] ks ks F); [reflexivity|].
  intros t t' cs Ft. unfold ks. rewrite (at_end_shape r t t' Ft). reflexivity.
Qed.

(* the re.sub pass, on spans *)
Fixpoint sub_matches_sp (fuel : nat) (r : re) (s : str) : option (list scaps) :=
  match fuel with
  | O => Some []
  | S f =>
    match mre_sp r s [] (fun s' cs => Some (length s', cs)) with
    | Some (n', cs) =>
      if (n' <? length s)%nat then
        match sub_matches_sp f r (skipn (length s - n') s) with Some l => Some (cs :: l) | None => None end
      else None
    | None => match s with [] => Some [] | _ :: t => sub_matches_sp f r t end
    end
  end.

Lemma skipn_skipn_add {A} (a b : nat) (l : list A) : skipn a (skipn b l) = skipn (b + a) l.
Proof. revert l. induction b as [|b IH]; intros l; [reflexivity|]. destruct l as [|x l]; [cbn; destruct a; reflexivity|]. cbn [skipn Nat.add]. apply IH. Qed.

Lemma suffix_len whole s : suffix whole s -> (length s <= length whole)%nat.
Proof. unfold suffix. intros H. rewrite <- H at 1. rewrite skipn_length. lia. Qed.

Lemma sub_matches_text whole r : forall fuel s, suffix whole s ->
  sub_matches fuel r s = option_map (map (tx whole)) (sub_matches_sp fuel r s).
Proof.
  induction fuel as [|f IH]; intros s Hs; [reflexivity|]. cbn [sub_matches sub_matches_sp].
  pose proof (suffix_len whole s Hs) as Ls.
  set (G := fun x : nat * scaps => (skipn (length whole - fst x) whole, tx whole (snd x))).
  assert (E : mre r s [] (fun s' cs => Some (s', cs)) = option_map G (mre_sp r s [] (fun s' cs => Some (length s', cs)))).
  { apply (mre_text_of_spans whole G r s [] (fun s' cs => Some (s', cs)) (fun s' cs => Some (length s', cs)) Hs).
    intros s' cs Hs'. unfold G. cbn [option_map fst snd]. rewrite Hs'. reflexivity. }
  rewrite E. clear E.
  destruct (mre_sp r s [] (fun s' cs => Some (length s', cs))) as [[n' cs]|]; unfold G; cbn [option_map fst snd].
  - rewrite skipn_length.
    destruct (n' <? length s)%nat eqn:C.
    + apply Nat.ltb_lt in C. replace (length whole - (length whole - n') <? length s)%nat with true by (symmetry; apply Nat.ltb_lt; lia).
      assert (Es : skipn (length s - n') s = skipn (length whole - n') whole).
      { transitivity (skipn (length s - n') (skipn (length whole - length s) whole)); [rewrite Hs; reflexivity|].
        rewrite skipn_skipn_add. f_equal. lia. }
      rewrite Es. rewrite IH.
      * destruct (sub_matches_sp f r (skipn (length whole - n') whole)); reflexivity.
      * unfold suffix. rewrite skipn_length. f_equal. lia.
    + apply Nat.ltb_ge in C. replace (length whole - (length whole - n') <? length s)%nat with false by (symmetry; apply Nat.ltb_ge; lia).
      reflexivity.
  - destruct s as [|x t]; [reflexivity|]. apply IH. eapply suffix_tl. exact Hs.
Qed.

Lemma Forall2_skipn {A B} (R : A -> B -> Prop) n : forall l l', Forall2 R l l' -> Forall2 R (skipn n l) (skipn n l').
Proof. induction n as [|n IH]; intros l l' F; [exact F|]. destruct F; [constructor|]. cbn [skipn]. apply IH. assumption. Qed.

Lemma sub_matches_sp_shape r : forall fuel s s', Forall2 (simR r) s s' -> sub_matches_sp fuel r s = sub_matches_sp fuel r s'.
Proof.
  induction fuel as [|f IH]; intros s s' F; [reflexivity|]. cbn [sub_matches_sp].
  rewrite (mre_sp_shape (simR r) r (simR_simb r) s s' [] (fun t cs => Some (length t, cs)) (fun t cs => Some (length t, cs)) F).
  - rewrite <- (Forall2_len (simR r) s s' F).
    destruct (mre_sp r s' [] _) as [[n' cs]|].
    + destruct (n' <? length s)%nat; [|reflexivity]. rewrite (IH _ _ (Forall2_skipn _ (length s - n') _ _ F)). reflexivity.
    + destruct F as [|x x' t t' Hx Ft]; [reflexivity|]. apply IH. exact Ft.
  - intros t t' cs Ft. rewrite (Forall2_len (simR r) t t' Ft). reflexivity.
Qed.

(* the working form: the matches of any input are the substrings at the spans found on a representative of the same shape *)
Theorem sub_matches_shape r fuel s0 s : Forall2 (simR r) s0 s ->
  sub_matches fuel r s = option_map (map (tx s)) (sub_matches_sp fuel r s0).
Proof. intros F. rewrite (sub_matches_text s r fuel s (suffix_self s)). rewrite (sub_matches_sp_shape r fuel s0 s F). reflexivity. Qed.
