(* Proofs/IntervalGlueInit.v — the translated Interval.__init__ (up to precise_diff) is the small function spec_init over the same primitives
   (generic case analysis; kept in its own file because the translated term duplicates its continuation). *)
From Coq Require Import ZArith List Bool Lia ZifyBool.
From PV Require Import Lib.PyBase Spec.Cal Spec.Zone Model.TzGlueObj Gen.TzGlue Model.IntervalObj Gen.IntervalGlue.
Import ListNotations.
Open Scope Z_scope.

(* one endpoint: (the pendulum object stored on the Interval, the value handed to precise_diff) *)
Definition init_norm (o : gobj) : result (gobj * gobj) :=
  if negb (is_pdate o) then
    (if is_dt o then bind (glue_pendulum_instance o (Some g_UTC)) (fun p => Ok (p, p))
     else bind (glue_pendulum_date (o_year o) (o_month o) (o_day o)) (fun p => Ok (p, p)))
  else if is_pdt o
       then bind (o_dt_new (o_year o) (o_month o) (o_day o) (o_hour o) (o_minute o) (o_second o) (o_microsecond o) (o_tz o) (o_fold o)) (fun n => Ok (o, n))
       else bind (o_date_new (o_year o) (o_month o) (o_day o)) (fun n => Ok (o, n)).
Definition spec_init (a b : gobj) (abs : bool) : result (bool * gobj * gobj * gobj * gobj) :=
  bind (init_norm a) (fun '(s, s_) => bind (init_norm b) (fun '(e, e_) => bind (obj_gt s e) (fun inv =>
  if inv && abs then Ok (inv, e, s, e_, s_) else Ok (inv, s, e, s_, e_)))).

Ltac crush :=
  repeat (cbv beta iota zeta; cbn [bind];
          match goal with
          | |- ?x = ?x => reflexivity
          | |- context [if ?c then _ else _] => destruct c eqn:?
          | |- context [match ?x with Ok _ => _ | Raise _ => _ end] => destruct x eqn:?
          | |- context [match ?x with Some _ => _ | None => _ end] => destruct x eqn:?
          end); try reflexivity; try congruence.

Lemma glue_init_is_spec a b abs : glue_Interval_init a b abs = spec_init a b abs.
Proof. unfold glue_Interval_init, spec_init, init_norm. crush; subst; cbn [andb] in *; try congruence; try discriminate. Qed.
