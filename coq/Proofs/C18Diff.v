(* Proofs/C18Diff.v (C18) — facts about Model/DiffHumans.v, the end-to-end model of DateTime.diff(other) / diff_for_humans(other):
   the three listed findings as machine-checked witnesses (evaluated on the model that the correspondence run compares with both
   backends), the regions on which direction and operands are right, and totality of the phrase. *)
From Coq Require Import ZArith List Bool String Lia.
From PV Require Import Lib.PyBase Spec.Cal Model.PdBase Gen.PreciseDiff Model.RustPreciseDiff Model.PdInterval.
From PV Require Import Model.LocaleBase Gen.Locales Model.DiffFormat Model.DiffHumans Proofs.C18Facts.
Import ListNotations.
Open Scope Z_scope.

(* zone name / tzinfo object ids of the witnesses: 1 Europe/Paris, 2 UTC, 3 America/New_York *)
(* 2012-10-28: 00:30Z, and one hour later the SECOND 02:30 in Paris (+01:00; read with fold 0 it is +02:00) *)
Definition w_utc_0030 := mkpdt 2012 10 28 0 30 0 0 0 true 2 2 true.
Definition w_paris_0230_second := mkpdt 2012 10 28 2 30 0 0 3600 true 1 1 true.
(* 02:45 first occurrence (+02:00) and, 30 minutes later, 02:15 second occurrence (+01:00), same tzinfo object *)
Definition w_paris_0245_first := mkpdt 2012 10 28 2 45 0 0 7200 true 1 1 true.
Definition w_paris_0215_second := mkpdt 2012 10 28 2 15 0 0 3600 true 1 1 true.
(* 1968-05-01 01:01:00+01:00 and, one second later, 1968-04-30 20:01:01-04:00 *)
Definition w_paris_1968 := mkpdt 1968 5 1 1 1 0 0 3600 true 1 1 true.
Definition w_ny_1968 := mkpdt 1968 4 30 20 1 1 0 (-14400) true 3 3 true.

(* ---- finding interval-init-drops-fold: one hour elapsed, every component 0 ("a few seconds before"), both backends *)
Lemma second_occurrence_witness :
  let a := w_utc_0030 in let b := w_paris_0230_second in
  p_instant b - p_instant a = 3600 * 1000000 /\
  diff_comps false a b 0 7200 = Ok (mkcomp 0 0 0 0 0 0 0, false) /\
  diff_comps true a b 0 7200 = Ok (mkcomp 0 0 0 0 0 0 0, false) /\
  diff_comps false a b 0 3600 = Ok (mkcomp 0 0 0 0 1 0 0, false).     (* had fold been passed *)
Proof. vm_compute. repeat split; reflexivity. Qed.

Lemma diff_second_occurrence_refuted_lemma : exists a b oa ob,
  p_instant b - p_instant a = 3600 * 1000000 /\
  diff_comps false a b oa ob = Ok (mkcomp 0 0 0 0 0 0 0, false) /\ diff_comps true a b oa ob = Ok (mkcomp 0 0 0 0 0 0 0, false).
Proof. exists w_utc_0030, w_paris_0230_second, 0, 7200. pose proof second_occurrence_witness as H. cbv zeta in H. tauto. Qed.

(* ---- finding same-tzinfo-wall-order: the reference is 30 minutes LATER, invert (= "the instance is later") is true *)
Lemma diff_wall_order_refuted_lemma : exists a b oa ob c,
  p_instant b - p_instant a = 1800 * 1000000 /\ diff_comps false a b oa ob = Ok (c, true) /\ diff_comps true a b oa ob = Ok (c, true).
Proof.
  exists w_paris_0245_first, w_paris_0215_second, 7200, 7200, (mkcomp 0 0 0 0 0 30 0). vm_compute. repeat split; reflexivity.
Qed.

(* ---- finding rs-cross-zone-shift: one second elapsed; pure Python: 1 second; compiled: 1 hour -59 minutes 1 second *)
Lemma diff_rs_cross_zone_refuted_lemma : exists a b,
  p_instant b - p_instant a = 1000000 /\
  diff_comps false a b (p_offset a) (p_offset b) = Ok (mkcomp 0 0 0 0 0 0 1, false) /\
  diff_comps true a b (p_offset a) (p_offset b) = Ok (mkcomp 0 0 0 0 1 (-59) 1, false).
Proof. exists w_paris_1968, w_ny_1968. vm_compute. repeat split; reflexivity. Qed.

(* ---- where the operands handed to precise_diff ARE the operands: neither is a second occurrence *)
Lemma refolded_same d : refolded d (p_offset d) = d.
Proof. destruct d; reflexivity. Qed.

Lemma diff_sees_operands_partial_lemma rs a b :
  diff_comps rs a b (p_offset a) (p_offset b) =
  (let inv := p_gtb a b in let s := if inv then b else a in let e := if inv then a else b in
   bind (pd_backend rs s e) (fun d =>
   let c := iv_components d (iv_elapsed s e) in
   Ok (mkcomp (iv_years c) (iv_months c) (iv_weeks c) (iv_remaining_days c) (iv_hours c) (iv_minutes c) (iv_remaining_seconds c), inv))).
Proof. unfold diff_comps. rewrite !refolded_same. reflexivity. Qed.

(* ---- direction: invert <-> the instance is the later INSTANT, for aware operands with different tzinfo objects or equal offsets *)
Lemma diff_invert_is_gtb rs a b oa ob c inv : diff_comps rs a b oa ob = Ok (c, inv) -> inv = p_gtb a b.
Proof.
  unfold diff_comps. cbv zeta. destruct (pd_backend rs _ _); cbn [bind]; intro H; inversion H. reflexivity.
Qed.

Lemma direction_follows_instants_partial_lemma rs a b oa ob c inv :
  p_aware a = true -> p_aware b = true -> (p_tzobj a <> p_tzobj b \/ p_offset a = p_offset b) ->
  diff_comps rs a b oa ob = Ok (c, inv) -> (inv = true <-> p_instant b < p_instant a).
Proof.
  intros Ha Hb Hreg H. apply diff_invert_is_gtb in H. subst inv.
  unfold p_gtb, p_key. rewrite Ha, Hb.
  assert (Da : p_is_dt a = true) by (unfold p_aware in Ha; destruct (p_is_dt a); [reflexivity | discriminate]).
  assert (Db : p_is_dt b = true) by (unfold p_aware in Hb; destruct (p_is_dt b); [reflexivity | discriminate]).
  rewrite Da, Db. cbn [negb andb].
  destruct (p_tzobj a =? p_tzobj b) eqn:E; cbn [negb].
  - destruct Hreg as [Hne | Heq]; [apply Z.eqb_eq in E; contradiction |].
    unfold p_instant. rewrite Heq. rewrite Z.gtb_ltb, Z.ltb_lt. lia.
  - rewrite Z.gtb_ltb, Z.ltb_lt. lia.
Qed.

(* the hypotheses are satisfiable: the cross-zone witness pair *)
Example direction_hypotheses_satisfiable :
  p_aware w_paris_1968 = true /\ p_aware w_ny_1968 = true /\ p_tzobj w_paris_1968 <> p_tzobj w_ny_1968.
Proof. repeat split; try reflexivity. vm_compute. discriminate. Qed.

(* ---- the phrase: total whenever the difference exists (it always does with the compiled helper) *)
Lemma diff_for_humans_total_lemma L rs a b oa ob absolute ci : In L all_locales ->
  diff_comps rs a b oa ob = Ok ci ->
  exists s, diff_for_humans L rs a b oa ob absolute = Ok s /\ s <> [] /\ brace_free s.
Proof.
  intros HL H. unfold diff_for_humans. rewrite H. cbn [bind]. apply format_total_lemma. exact HL.
Qed.

Lemma diff_comps_rs_total a b oa ob : exists ci, diff_comps true a b oa ob = Ok ci.
Proof. unfold diff_comps, pd_backend. cbv zeta. cbn [bind]. eexists. reflexivity. Qed.

Lemma diff_for_humans_rs_total_lemma L a b oa ob absolute : In L all_locales ->
  exists s, diff_for_humans L true a b oa ob absolute = Ok s /\ s <> [] /\ brace_free s.
Proof. intro HL. destruct (diff_comps_rs_total a b oa ob) as [ci H]. eapply diff_for_humans_total_lemma; eauto. Qed.
