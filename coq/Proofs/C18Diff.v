(* Proofs/C18Diff.v (C18) — facts about Model/DiffHumans.v, the end-to-end model of DateTime.diff(other) / diff_for_humans(other):
   the two listed findings as machine-checked witnesses (evaluated on the model that the correspondence run compares with both
   backends), the region on which the direction is right, the operands handed to precise_diff (the values themselves, whichever
   occurrence of a repeated wall time they are — finding interval-init-drops-fold is repaired), and totality of the phrase. *)
From Coq Require Import ZArith List Bool String Lia ZifyBool.
From PV Require Import Lib.PyBase Spec.Cal Model.PdBase Gen.PreciseDiff Model.RustPreciseDiff Model.PdInterval.
From PV Require Import Proofs.CalFacts Proofs.C06Facts Proofs.C06Spec Proofs.C06Rebuild Proofs.C06Thms.
From PV Require Import Model.LocaleBase Gen.Locales Model.DiffFormat Model.DiffHumans Proofs.C18Facts.
Import ListNotations.
Open Scope Z_scope.

(* zone name / tzinfo object ids of the witnesses: 1 Europe/Paris, 2 UTC, 3 America/New_York *)
(* 2012-10-28: 00:30Z, and one hour later the SECOND 02:30 in Paris (+01:00; the first 02:30 is +02:00) *)
Definition w_utc_0030 := mkpdt 2012 10 28 0 30 0 0 0 true 2 2 true.
Definition w_paris_0230_second := mkpdt 2012 10 28 2 30 0 0 3600 true 1 1 true.
(* 02:45 first occurrence (+02:00) and, 30 minutes later, 02:15 second occurrence (+01:00), same tzinfo object *)
Definition w_paris_0245_first := mkpdt 2012 10 28 2 45 0 0 7200 true 1 1 true.
Definition w_paris_0215_second := mkpdt 2012 10 28 2 15 0 0 3600 true 1 1 true.
(* 1968-05-01 01:01:00+01:00 and, one second later, 1968-04-30 20:01:01-04:00 *)
Definition w_paris_1968 := mkpdt 1968 5 1 1 1 0 0 3600 true 1 1 true.
Definition w_ny_1968 := mkpdt 1968 4 30 20 1 1 0 (-14400) true 3 3 true.

(* ---- the former witness of finding interval-init-drops-fold (repaired): one hour elapsed up to the SECOND 02:30 — the components
   are 1 hour with both backends (they were all 0, "a few seconds before", when Interval.__init__ rebuilt its natives without fold=:
   the second occurrence was read as the first, i.e. with offset +02:00, which the last line re-computes) *)
Definition w_paris_0230_first := mkpdt 2012 10 28 2 30 0 0 7200 true 1 1 true.
Lemma second_occurrence_witness :
  let a := w_utc_0030 in let b := w_paris_0230_second in
  p_instant b - p_instant a = 3600 * 1000000 /\
  diff_comps false a b = Ok (mkcomp 0 0 0 0 1 0 0, false) /\
  diff_comps true a b = Ok (mkcomp 0 0 0 0 1 0 0, false) /\
  diff_comps false b a = Ok (mkcomp 0 0 0 0 1 0 0, true) /\
  diff_comps true b a = Ok (mkcomp 0 0 0 0 1 0 0, true) /\
  diff_comps false a w_paris_0230_first = Ok (mkcomp 0 0 0 0 0 0 0, false).     (* the first occurrence IS the instant of a *)
Proof. vm_compute. repeat split; reflexivity. Qed.

(* ---- finding same-tzinfo-wall-order: the reference is 30 minutes LATER, invert (= "the instance is later") is true; precise_diff is
   handed the two instants in the wrong order (its own `d1 > d2` is the same wall-clock comparison) and its components are not those of
   30 minutes with either backend *)
Lemma diff_wall_order_refuted_lemma : exists a b c1 c2,
  p_instant b - p_instant a = 1800 * 1000000 /\ diff_comps false a b = Ok (c1, true) /\ diff_comps true a b = Ok (c2, true) /\
  c1 <> mkcomp 0 0 0 0 0 30 0 /\ c2 <> mkcomp 0 0 0 0 0 30 0.
Proof.
  exists w_paris_0245_first, w_paris_0215_second, (mkcomp (-1) 11 4 1 23 30 0), (mkcomp 0 0 0 0 0 (-30) 0).
  vm_compute. repeat split; try reflexivity; discriminate.
Qed.

(* the same finding, equality: the two occurrences of ONE wall time (Europe/Paris 1996-10-27 02:00 +02:00 and, one hour later, 02:00 +01:00)
   share the tzinfo object and compare equal on the wall clock, so the pure-Python precise_diff returns all zeros through its
   `d1 == d2` shortcut; the compiled helper has no such shortcut and reports the hour *)
Definition w_paris_1996_0200_first := mkpdt 1996 10 27 2 0 0 0 7200 true 1 1 true.
Definition w_paris_1996_0200_second := mkpdt 1996 10 27 2 0 0 0 3600 true 1 1 true.
Lemma same_wall_two_occurrences_refuted_lemma : exists a b,
  p_instant b - p_instant a = 3600 * 1000000 /\
  diff_comps false a b = Ok (mkcomp 0 0 0 0 0 0 0, false) /\ diff_comps true a b = Ok (mkcomp 0 0 0 0 1 0 0, false).
Proof. exists w_paris_1996_0200_first, w_paris_1996_0200_second. vm_compute. repeat split; reflexivity. Qed.

(* ---- finding rs-cross-zone-shift: one second elapsed; pure Python: 1 second; compiled: 1 hour -59 minutes 1 second *)
Lemma diff_rs_cross_zone_refuted_lemma : exists a b,
  p_instant b - p_instant a = 1000000 /\
  diff_comps false a b = Ok (mkcomp 0 0 0 0 0 0 1, false) /\
  diff_comps true a b = Ok (mkcomp 0 0 0 0 1 (-59) 1, false).
Proof. exists w_paris_1968, w_ny_1968. vm_compute. repeat split; reflexivity. Qed.

(* ---- the operands handed to precise_diff ARE the operands (with the offsets their folds select), for every pair *)
Lemma diff_sees_operands_lemma rs a b :
  diff_comps rs a b =
  (let inv := p_gtb a b in let s := if inv then b else a in let e := if inv then a else b in
   bind (pd_backend rs s e) (fun d =>
   let c := iv_components d (iv_elapsed s e) in
   Ok (mkcomp (iv_years c) (iv_months c) (iv_weeks c) (iv_remaining_days c) (iv_hours c) (iv_minutes c) (iv_remaining_seconds c), inv))).
Proof. reflexivity. Qed.

(* ---- direction: invert <-> the instance is the later INSTANT, for aware operands with different tzinfo objects or equal offsets *)
Lemma diff_invert_is_gtb rs a b c inv : diff_comps rs a b = Ok (c, inv) -> inv = p_gtb a b.
Proof.
  unfold diff_comps. cbv zeta. destruct (pd_backend rs _ _); cbn [bind]; intro H; inversion H. reflexivity.
Qed.

Lemma direction_follows_instants_partial_lemma rs a b c inv :
  p_aware a = true -> p_aware b = true -> (p_tzobj a <> p_tzobj b \/ p_offset a = p_offset b) ->
  diff_comps rs a b = Ok (c, inv) -> (inv = true <-> p_instant b < p_instant a).
Proof.
  intros Ha Hb Hreg H. apply diff_invert_is_gtb in H. subst inv.
  unfold p_gtb, p_key. rewrite Ha, Hb.
  assert (Da : p_is_dt a = true) by (unfold p_aware in Ha; destruct (p_is_dt a); [reflexivity | discriminate]).
  assert (Db : p_is_dt b = true) by (unfold p_aware in Hb; destruct (p_is_dt b); [reflexivity | discriminate]).
  rewrite Da, Db. cbn [negb andb].
  destruct (p_tzobj a =? p_tzobj b) eqn:E; cbn [negb].
  - destruct Hreg as [Hne | Heq]; [apply Z.eqb_eq in E; contradiction |].
    unfold p_instant. rewrite Heq. rewrite Z.gtb_ltb, Z.ltb_lt. lia.
  - rewrite Z.gtb_ltb, Z.ltb_lt. lia.
Qed.

(* the hypotheses are satisfiable: the cross-zone witness pair *)
Example direction_hypotheses_satisfiable :
  p_aware w_paris_1968 = true /\ p_aware w_ny_1968 = true /\ p_tzobj w_paris_1968 <> p_tzobj w_ny_1968.
Proof. repeat split; try reflexivity. vm_compute. discriminate. Qed.

(* ---- the phrase: total whenever the difference exists (it always does with the compiled helper) *)
Lemma diff_for_humans_total_lemma L rs a b absolute ci : In L all_locales ->
  diff_comps rs a b = Ok ci ->
  exists s, diff_for_humans L rs a b absolute = Ok s /\ s <> [] /\ brace_free s.
Proof.
  intros HL H. unfold diff_for_humans. rewrite H. cbn [bind]. apply format_total_lemma. exact HL.
Qed.

Lemma diff_comps_rs_total a b : exists ci, diff_comps true a b = Ok ci.
Proof. unfold diff_comps, pd_backend. cbv zeta. cbn [bind]. eexists. reflexivity. Qed.

Lemma diff_for_humans_rs_total_lemma L a b absolute : In L all_locales ->
  exists s, diff_for_humans L true a b absolute = Ok s /\ s <> [] /\ brace_free s.
Proof. intro HL. destruct (diff_comps_rs_total a b) as [ci H]. eapply diff_for_humans_total_lemma; eauto. Qed.

(* ------------------------------------------------------------------------------------------------------------------------------
   magnitude, proved: two datetimes with zero offset (UTC, or both naive) less than a day apart.  From the characterisation of the
   translated precise_diff (C06: py_pd_spec) the difference has no years, months or days and its hours/minutes/seconds ARE the elapsed
   time; hence (within_one_unit_fixed) the count of the phrase is within one unit of the TRUE elapsed time.  The same for the compiled
   helper through pd_rust_eq_python (C06). *)
(* the day after a valid date *)
Lemma next_day y m d : valid_dateb y m d = true ->
  exists y' m' d', valid_dateb y' m' d' = true /\ ymd2ord y' m' d' = ymd2ord y m d + 1 /\
    ((y' = y /\ m' = m /\ d' = d + 1) \/
     (d = dim y m /\ d' = 1 /\ prev_y y' m' = y /\ prev_m m' = m /\ 12 * (y' - y) + (m' - m) = 1)).
Proof.
  intro V. pose proof V as V'. apply valid_dateb_true in V'. destruct V' as [Hm Hd].
  destruct (Z_lt_ge_dec d (dim y m)) as [Hlt | Hge].
  - exists y, m, (d + 1). split; [apply valid_dateb_true; lia|]. split; [unfold ymd2ord; lia|]. left. lia.
  - assert (d = dim y m) by lia.
    set (m' := if m =? 12 then 1 else m + 1). set (y' := if m =? 12 then y + 1 else y).
    assert (Hp : prev_y y' m' = y /\ prev_m m' = m).
    { unfold prev_y, prev_m, y', m'. destruct (m =? 12) eqn:E.
      - change (1 =? 1) with true. cbv iota. lia.
      - destruct (m + 1 =? 1) eqn:E2; lia. }
    destruct Hp as [Hpy Hpm].
    assert (Hm' : 1 <= m' <= 12) by (unfold m'; destruct (m =? 12) eqn:E; lia).
    exists y', m', 1. pose proof (dim_bounds y' m').
    split; [apply valid_dateb_true; lia|].
    split.
    + rewrite (ymd2ord_prev y' m' 1 Hm'). rewrite Hpy, Hpm. unfold ymd2ord. lia.
    + right. repeat split; try assumption. unfold y', m'. destruct (m =? 12) eqn:E; lia.
Qed.

Lemma subday_spec a b r : wf_op a -> wf_op b -> 0 < p_wall b - p_wall a < us_per_day -> pd_spec a b r ->
  pd_years r = 0 /\ pd_months r = 0 /\ pd_days r = 0 /\
  ((pd_hours r * 60 + pd_minutes r) * 60 + pd_seconds r) * 1000000 + pd_microseconds r = p_wall b - p_wall a.
Proof.
  intros (Va & Ta & _) (Vb & Tb & _) He S.
  pose proof (tod_range a Ta) as Ra. pose proof (tod_range b Tb) as Rb.
  rewrite (p_wall_split a), (p_wall_split b) in *.
  unfold pd_spec in S. cbv zeta in S. destruct S as (_ & _ & _ & _ & Htime & HM & Hd).
  pose proof (dim_bounds (p_year b) (p_month b)) as B1.
  assert (Hord : p_date_ord b = p_date_ord a \/ p_date_ord b = p_date_ord a + 1) by (unfold us_per_day in *; nia).
  destruct Hord as [Heq | Hnext].
  - (* same date *)
    pose proof Heq as Heq'. unfold p_date_ord in Heq'. pose proof (ymd2ord_inj _ _ _ _ _ _ Vb Va Heq') as E. inversion E as [[Ey Em Ed]].
    assert (Hlt : tod a < tod b) by (rewrite Heq in He; lia).
    destruct (tod b <? tod a) eqn:B; [lia|].
    rewrite Ey, Em, Ed in *. rewrite Heq. unfold us_per_day in *.
    destruct Hd as [(H1 & H2 & H3) | [(H1 & _) | (H1 & _)]]; [| lia | lia].
    repeat split; lia.
  - (* the next date *)
    assert (Hlt : tod b < tod a) by (rewrite Hnext in He; unfold us_per_day in *; lia).
    destruct (tod b <? tod a) eqn:B; [|lia].
    destruct (next_day _ _ _ Va) as (y' & m' & d' & V' & Ho & Hc).
    unfold p_date_ord in Hnext. rewrite <- Ho in Hnext.
    pose proof (ymd2ord_inj _ _ _ _ _ _ Vb V' Hnext) as E. inversion E as [[Ey Em Ed]].
    unfold p_date_ord. rewrite Ey, Em, Ed in *. rewrite Ho.
    destruct Hc as [(-> & -> & ->) | (Hda & -> & Hpy & Hpm & Hdm)].
    + unfold us_per_day in *. destruct Hd as [(H1 & H2 & H3) | [(H1 & _) | (H1 & _)]]; [| lia | lia]. repeat split; lia.
    + rewrite Hpy, Hpm in *. unfold us_per_day in *. pose proof (dim_bounds (p_year a) (p_month a)) as B2.
      destruct Hd as [(H1 & _) | [(H1 & H2 & _) | (H1 & H2 & H3 & H4)]]; [lia | lia |]. repeat split; lia.
Qed.

Ltac Zify.zify_post_hook ::= Z.to_euclidean_division_equations.

Lemma subday_utc a b : dt_pair a b -> 0 < p_wall b - p_wall a < us_per_day ->
  exists c, diff_comps false a b = Ok (c, false) /\ sub_month_ranges c /\
            c_weeks c = 0 /\ c_rdays c = 0 /\ total_seconds c = (p_wall b - p_wall a) / 1000000.
Proof.
  intros P He. pose proof P as (Wa & Wb & Da & Db & Htz).
  pose proof Wa as (_ & _ & Oa). pose proof Wb as (_ & _ & Ob).
  pose proof (py_pd_spec a b P ltac:(lia)) as S.
  destruct (py_precise_diff a b) as [r|] eqn:E; [|contradiction]. destruct S as [S _].
  pose proof (subday_spec a b r Wa Wb He S) as (HY & HMo & HD & HT).
  unfold pd_spec in S. cbv zeta in S. destruct S as (Rh & Rm & Rs & Ru & _).
  assert (G : p_gtb a b = false).
  { unfold p_gtb. rewrite (key_dt a b a Oa Ob Da (or_introl eq_refl)), (key_dt a b b Oa Ob Db (or_intror eq_refl)). lia. }
  unfold diff_comps. rewrite G. cbv zeta. cbv iota.
  unfold pd_backend. rewrite E. cbn [bind].
  assert (El : iv_elapsed a b = p_wall b - p_wall a).
  { unfold iv_elapsed, p_instant. rewrite Da, Oa, Ob. destruct (p_aware a); lia. }
  rewrite El. eexists. split; [reflexivity|].
  unfold sub_month_ranges, total_seconds, iv_components. cbn [c_years c_months c_weeks c_rdays c_hours c_minutes c_rsecs iv_years iv_months iv_weeks iv_remaining_days iv_hours iv_minutes iv_remaining_seconds].
  rewrite HY, HMo, HD. unfold sgn. unfold us_per_day in *.
  set (E0 := p_wall b - p_wall a) in *.
  assert (Hs : Z.abs E0 / 1000000 = (pd_hours r * 60 + pd_minutes r) * 60 + pd_seconds r) by lia.
  rewrite Hs. change (Z.abs 0) with 0. change (0 / 7) with 0. change (0 mod 7) with 0.
  assert (Hq : E0 / 1000000 = (pd_hours r * 60 + pd_minutes r) * 60 + pd_seconds r) by lia.
  rewrite Hq.
  destruct (E0 <? 0) eqn:B0; [lia|].
  set (T := (pd_hours r * 60 + pd_minutes r) * 60 + pd_seconds r) in *.
  assert (RT : 0 <= T < 86400) by (unfold T; lia).
  rewrite (Z.mod_small T 86400 RT), (Z.div_small T 86400 RT), !Z.mul_1_r.
  destruct (T <? 0) eqn:B1; [lia|]. change (0 <? 0) with false. cbv iota.
  rewrite (Z.abs_eq T) by lia.
  assert (Hm60 : T mod 60 = pd_seconds r) by (unfold T; lia).
  rewrite Hm60. repeat split; try lia.
Qed.

Lemma within_one_unit_true_elapsed_lemma a b : dt_pair a b -> 0 < p_wall b - p_wall a < us_per_day ->
  exists c, diff_comps false a b = Ok (c, false) /\
    match gen_pick c with
    | Some (u, n) => Z.abs (n * unit_seconds u - (p_wall b - p_wall a) / 1000000) < unit_seconds u
    | None => (p_wall b - p_wall a) / 1000000 <= 10
    end.
Proof.
  intros P He. destruct (subday_utc a b P He) as (c & Hc & R & _ & _ & HT).
  exists c. split; [exact Hc|]. rewrite <- HT. apply within_one_unit_fixed_lemma. exact R.
Qed.

Lemma diff_comps_rs_eq_py a b : dt_pair a b -> 1 <= p_year a -> p_wall a < p_wall b -> diff_comps true a b = diff_comps false a b.
Proof.
  intros P Hy Hlt. pose proof P as (Wa & Wb & Da & Db & _). pose proof Wa as (_ & _ & Oa). pose proof Wb as (_ & _ & Ob).
  assert (G : p_gtb a b = false).
  { unfold p_gtb. rewrite (key_dt a b a Oa Ob Da (or_introl eq_refl)), (key_dt a b b Oa Ob Db (or_intror eq_refl)). lia. }
  unfold diff_comps. rewrite G. cbv zeta. cbv iota.
  unfold pd_backend. rewrite (rs_eq_py a b P Hy Hlt). reflexivity.
Qed.

Lemma within_one_unit_true_elapsed_rs_lemma a b : dt_pair a b -> 1 <= p_year a -> 0 < p_wall b - p_wall a < us_per_day ->
  exists c, diff_comps true a b = Ok (c, false) /\
    match gen_pick c with
    | Some (u, n) => Z.abs (n * unit_seconds u - (p_wall b - p_wall a) / 1000000) < unit_seconds u
    | None => (p_wall b - p_wall a) / 1000000 <= 10
    end.
Proof.
  intros P Hy He. rewrite (diff_comps_rs_eq_py a b P Hy ltac:(lia)). apply within_one_unit_true_elapsed_lemma; assumption.
Qed.

(* the hypotheses are satisfiable, across a month end: 2021-01-31T23:00Z -> 2021-02-01T01:00Z is "2 hours" *)
Example subday_hypotheses_satisfiable :
  let a := mkpdt 2021 1 31 23 0 0 0 0 true 2 2 true in let b := mkpdt 2021 2 1 1 0 0 0 0 true 2 2 true in
  dt_pair a b /\ 1 <= p_year a /\ 0 < p_wall b - p_wall a < us_per_day /\
  diff_comps false a b = Ok (mkcomp 0 0 0 0 2 0 0, false) /\ diff_comps true a b = Ok (mkcomp 0 0 0 0 2 0 0, false).
Proof.
  cbv zeta. repeat split; try reflexivity; try (vm_compute; congruence); try (vm_compute; reflexivity).
Qed.
