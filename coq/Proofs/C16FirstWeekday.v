(* Proofs/C16FirstWeekday.v — first_of / last_of / nth_of(.., 1, ..) read calendar.monthcalendar, whose layout follows the
   process-wide calendar.setfirstweekday(fw); the helpers index a row with the requested weekday as if fw were 0.
   Closed form: under firstweekday fw the helpers answer for weekday (wd + fw) mod 7 — right iff fw = 0 (finding
   calendar-firstweekday); next/previous and nth_of with n >= 2 never read the calendar. *)
From Coq Require Import ZArith List Bool Lia ZifyBool.
From PV Require Import Lib.PyBase Spec.Cal Proofs.CalFacts Gen.DateGetters Model.Weekday Model.WeekdayZone Proofs.C16Facts.
Ltac Zify.zify_post_hook ::= Z.to_euclidean_division_equations.
Open Scope Z_scope.

Lemma mc_first_fw_range fw y m : 0 <= mc_first_fw fw y m <= 6.
Proof. unfold mc_first_fw. lia. Qed.

Lemma mc_first_fw_0 y m : mc_first_fw 0 y m = mc_first y m.
Proof. unfold mc_first_fw, mc_first. pose proof (weekday0_range (ymd2ord y m 1)). lia. Qed.

(* with the default configuration the configurable calendar is the calendar of Model/Weekday.v *)
Lemma mc_get_fw_0 y m i c : mc_get_fw 0 y m i c = mc_get y m i c.
Proof. unfold mc_get_fw, mc_get, mc_rows_fw, mc_rows, mc_cell_fw, mc_cell. rewrite mc_first_fw_0. reflexivity. Qed.

Lemma fw_first_rows fw y m wd : 0 <= wd <= 6 ->
  let day := 1 + (wd - mc_first_fw fw y m) mod 7 in
  1 <= day <= 7 /\
  ((exists c0, mc_get_fw fw y m 0 wd = Ok c0 /\ (c0 >? 0) = true /\ c0 = day) \/
   (mc_get_fw fw y m 0 wd = Ok 0 /\ mc_get_fw fw y m 1 wd = Ok day)).
Proof.
  intros Hwd. unfold mc_get_fw, mc_rows_fw, mc_cell_fw.
  pose proof (mc_first_fw_range fw y m) as Hf. pose proof (dim_bounds y m) as Hd.
  generalize dependent (mc_first_fw fw y m). generalize dependent (dim y m). intros dm Hd f0 Hf. cbv zeta.
  assert (Ew : (wd <? 0) = false) by lia. rewrite !Ew.
  change (0 <? 0) with false. change (1 <? 0) with false. cbv iota.
  split; [lia|].
  destruct (Z_le_gt_dec f0 wd) as [L|G].
  - left. exists (wd - f0 + 1). repeat split; try lia.
    repeat match goal with |- context [if ?c then _ else _] => destruct c eqn:? end; try lia; f_equal; lia.
  - right. split; repeat match goal with |- context [if ?c then _ else _] => destruct c eqn:? end; try lia; f_equal; lia.
Qed.

Lemma fw_last_rows fw y m wd : 0 <= wd <= 6 ->
  let dm := dim y m in
  let day := dm - ((mc_first_fw fw y m + dm - 1) - wd) mod 7 in
  dm - 6 <= day <= dm /\
  ((exists c0, mc_get_fw fw y m (-1) wd = Ok c0 /\ (c0 >? 0) = true /\ c0 = day) \/
   (mc_get_fw fw y m (-1) wd = Ok 0 /\ mc_get_fw fw y m (-2) wd = Ok day)).
Proof.
  intros Hwd. unfold mc_get_fw, mc_rows_fw, mc_cell_fw.
  pose proof (mc_first_fw_range fw y m) as Hf. pose proof (dim_bounds y m) as Hd.
  generalize dependent (mc_first_fw fw y m). generalize dependent (dim y m). intros dm Hd f0 Hf. cbv zeta.
  assert (Ew : (wd <? 0) = false) by lia. rewrite !Ew.
  change (-1 <? 0) with true. change (-2 <? 0) with true. cbv iota.
  split; [lia|].
  destruct (Z_le_gt_dec wd ((f0 + dm - 1) mod 7)) as [L|G].
  - left. exists (dm - (f0 + dm - 1 - wd) mod 7). repeat split; try lia.
    repeat match goal with |- context [if ?c then _ else _] => destruct c eqn:? end; try lia; f_equal; lia.
  - right. split; repeat match goal with |- context [if ?c then _ else _] => destruct c eqn:? end; try lia; f_equal; lia.
Qed.

Lemma fw_first_of_month_some fw p wd : wf_date p -> 0 <= wd <= 6 ->
  fw_first_of_month fw p (Some wd) = Ok (mkdate (d_year p) (d_month p) (1 + (wd - mc_first_fw fw (d_year p) (d_month p)) mod 7)).
Proof.
  intros Hp Hwd. destruct (wf_fields p Hp) as (Hy & Hm & Hd).
  pose proof (dim_bounds (d_year p) (d_month p)) as Hdim.
  destruct (fw_first_rows fw (d_year p) (d_month p) wd Hwd) as [Hday [(c0 & E0 & G0 & Ec)|[E0 E1]]];
  unfold fw_first_of_month; rewrite E0; cbn [bind].
  - rewrite G0. subst c0. unfold date_set_day. apply date_new_ok; lia.
  - change (0 >? 0) with false. cbv iota. rewrite E1. cbn [bind]. unfold date_set_day. apply date_new_ok; lia.
Qed.

Lemma fw_last_of_month_some fw p wd : wf_date p -> 0 <= wd <= 6 ->
  let dm := dim (d_year p) (d_month p) in
  fw_last_of_month fw p (Some wd) = Ok (mkdate (d_year p) (d_month p) (dm - ((mc_first_fw fw (d_year p) (d_month p) + dm - 1) - wd) mod 7)).
Proof.
  intros Hp Hwd. destruct (wf_fields p Hp) as (Hy & Hm & Hd).
  pose proof (dim_bounds (d_year p) (d_month p)) as Hdim. cbv zeta.
  destruct (fw_last_rows fw (d_year p) (d_month p) wd Hwd) as [Hday [(c0 & E0 & G0 & Ec)|[E0 E1]]];
  unfold fw_last_of_month; rewrite E0; cbn [bind].
  - rewrite G0. subst c0. unfold date_set_day. apply date_new_ok; lia.
  - change (0 >? 0) with false. cbv iota. rewrite E1. cbn [bind]. unfold date_set_day. apply date_new_ok; lia.
Qed.

(* the month helpers under firstweekday fw answer for weekday (wd + fw) mod 7 *)
Lemma fw_first_of_month_shift fw p o : wf_date p -> 0 <= fw <= 6 -> owd_ok o ->
  fw_first_of_month fw p o = d_first_of_month p (option_map (fun wd => (wd + fw) mod 7) o).
Proof.
  intros Hp Hfw Ho. destruct o as [wd|]; [|reflexivity]. cbn [option_map]. cbn [owd_ok] in Ho. unfold valid_wd in Ho.
  rewrite fw_first_of_month_some by assumption. rewrite d_first_of_month_some by (try assumption; lia).
  do 2 f_equal. unfold mc_first_fw, mc_first.
  pose proof (weekday0_range (ymd2ord (d_year p) (d_month p) 1)). lia.
Qed.

Lemma fw_last_of_month_shift fw p o : wf_date p -> 0 <= fw <= 6 -> owd_ok o ->
  fw_last_of_month fw p o = d_last_of_month p (option_map (fun wd => (wd + fw) mod 7) o).
Proof.
  intros Hp Hfw Ho. destruct o as [wd|]; [|reflexivity]. cbn [option_map]. cbn [owd_ok] in Ho. unfold valid_wd in Ho.
  pose proof (fw_last_of_month_some fw p wd Hp Ho) as A. cbv zeta in A. rewrite A.
  pose proof (d_last_of_month_some p ((wd + fw) mod 7) Hp ltac:(lia)) as B. cbv zeta in B. rewrite B.
  do 2 f_equal. unfold mc_first_fw, mc_first.
  pose proof (weekday0_range (ymd2ord (d_year p) (d_month p) 1)).
  pose proof (dim_bounds (d_year p) (d_month p)). lia.
Qed.

Lemma date_new_wf' y m d q : date_new y m d = Ok q -> wf_date q.
Proof.
  unfold date_new. destruct ((1 <=? y) && (y <=? 9999) && valid_dateb y m d) eqn:E; [|discriminate].
  intros H. inversion H. apply andb_true_iff in E. destruct E as [E1 E2]. split; cbn [d_year d_month d_day]; [exact E2|lia].
Qed.

Theorem fw_first_of_shift fw u p o : wf_date p -> 0 <= fw <= 6 -> owd_ok o ->
  fw_first_of fw u p o = d_first_of u p (option_map (fun wd => (wd + fw) mod 7) o).
Proof.
  intros Hp Hfw Ho. unfold fw_first_of, d_first_of, d_first_of_quarter, d_first_of_year, date_set_ymd, date_set_month.
  destruct (u =? U_MONTH); [now apply fw_first_of_month_shift|].
  destruct (u =? U_QUARTER).
  { destruct (date_new _ _ _) as [q|e] eqn:E; cbn [bind]; [|reflexivity].
    apply fw_first_of_month_shift; try assumption. eapply date_new_wf'; eassumption. }
  destruct (u =? U_YEAR); [|reflexivity].
  destruct (date_new _ _ _) as [q|e] eqn:E; cbn [bind]; [|reflexivity].
  apply fw_first_of_month_shift; try assumption. eapply date_new_wf'; eassumption.
Qed.

Theorem fw_last_of_shift fw u p o : wf_date p -> 0 <= fw <= 6 -> owd_ok o ->
  fw_last_of fw u p o = d_last_of u p (option_map (fun wd => (wd + fw) mod 7) o).
Proof.
  intros Hp Hfw Ho. unfold fw_last_of, d_last_of, d_last_of_quarter, d_last_of_year, date_set_ymd, date_set_month.
  destruct (u =? U_MONTH); [now apply fw_last_of_month_shift|].
  destruct (u =? U_QUARTER).
  { destruct (date_new _ _ _) as [q|e] eqn:E; cbn [bind]; [|reflexivity].
    apply fw_last_of_month_shift; try assumption. eapply date_new_wf'; eassumption. }
  destruct (u =? U_YEAR); [|reflexivity].
  destruct (date_new _ _ _) as [q|e] eqn:E; cbn [bind]; [|reflexivity].
  apply fw_last_of_month_shift; try assumption. eapply date_new_wf'; eassumption.
Qed.

(* the region where the property holds: the default configuration *)
Theorem fw_first_of_default u p o : wf_date p -> owd_ok o -> fw_first_of 0 u p o = d_first_of u p o.
Proof.
  intros Hp Ho. rewrite fw_first_of_shift by (try assumption; lia). f_equal.
  destruct o as [wd|]; [|reflexivity]. cbn [option_map]. cbn [owd_ok] in Ho. unfold valid_wd in Ho. f_equal. lia.
Qed.

Theorem fw_last_of_default u p o : wf_date p -> owd_ok o -> fw_last_of 0 u p o = d_last_of u p o.
Proof.
  intros Hp Ho. rewrite fw_last_of_shift by (try assumption; lia). f_equal.
  destruct o as [wd|]; [|reflexivity]. cbn [option_map]. cbn [owd_ok] in Ho. unfold valid_wd in Ho. f_equal. lia.
Qed.

(* nth_of: only the first occurrence is looked up in the calendar; from the second on the configuration is irrelevant *)
Theorem fw_nth_of_from_second fw u p n wd : n <> 1 -> fw_nth_of fw u p n wd = d_nth_of u p n wd.
Proof. intros Hn. unfold fw_nth_of. destruct (n =? 1) eqn:E; [lia|reflexivity]. Qed.

Theorem fw_nth_of_first fw u p wd : is_unit u -> wf_date p -> 0 <= fw <= 6 -> valid_wd wd ->
  fw_nth_of fw u p 1 wd = d_first_of u p (Some ((wd + fw) mod 7)).
Proof.
  intros Hu Hp Hfw Hwd. unfold fw_nth_of. change (1 =? 1) with true. cbv iota.
  assert (E : (u =? U_MONTH) || (u =? U_QUARTER) || (u =? U_YEAR) = true).
  { destruct Hu as [->|[->| ->]]; reflexivity. }
  rewrite E. now rewrite fw_first_of_shift.
Qed.

Theorem fw_nth_of_default u p n wd : is_unit u -> wf_date p -> valid_wd wd -> 1 <= n ->
  fw_nth_of 0 u p n wd = d_nth_of u p n wd.
Proof.
  intros Hu Hp Hwd Hn. destruct (Z.eq_dec n 1) as [->|N]; [|now apply fw_nth_of_from_second].
  rewrite fw_nth_of_first by (try assumption; lia).
  replace ((wd + 0) mod 7) with wd by (unfold valid_wd in Hwd; lia).
  unfold d_nth_of.
  assert (G : forall body : result pdate,
     bind (overflow_to_none (bind body (fun r => Ok (Some r)))) (fun o => match o with Some d => Ok d | None => Raise E_PendulumException end)
     = match body with Raise E_OverflowError => Raise E_PendulumException | _ => body end).
  { intros [q|e]; [reflexivity|]. destruct e; reflexivity. }
  assert (NO : d_first_of u p (Some wd) <> Raise E_OverflowError).
  { rewrite d_first_of_some by assumption. discriminate. }
  destruct Hu as [->|[->| ->]]; cbn [Z.eqb Pos.eqb U_MONTH U_QUARTER U_YEAR];
    unfold d_nth_of_month, d_nth_of_quarter, d_nth_of_year; change (1 =? 1) with true; cbv iota; rewrite G;
    destruct (d_first_of _ p (Some wd)) as [q|e]; try reflexivity; destruct e; try reflexivity; congruence.
Qed.

(* the finding: with the week starting on Sunday (calendar.setfirstweekday(6), the usual US setting) the "first Monday"
   of May 2024 is reported as Sunday 5 May *)
Theorem first_of_under_firstweekday_refuted :
  exists fw p wd r, 0 <= fw <= 6 /\ wf_date p /\ valid_wd wd /\
    fw_first_of fw U_MONTH p (Some wd) = Ok r /\ dow r <> wd /\
    d_first_of U_MONTH p (Some wd) <> Ok r.
Proof.
  exists 6, (mkdate 2024 5 17), 0, (mkdate 2024 5 5).
  split; [lia|]. split; [split; [reflexivity|cbn; lia]|]. split; [unfold valid_wd; lia|].
  split; [vm_compute; reflexivity|]. split; vm_compute; discriminate.
Qed.

Theorem last_of_under_firstweekday_refuted :
  exists fw p wd r, 0 <= fw <= 6 /\ wf_date p /\ valid_wd wd /\
    fw_last_of fw U_YEAR p (Some wd) = Ok r /\ dow r <> wd.
Proof.
  exists 6, (mkdate 2024 5 17), 6, (mkdate 2024 12 28).
  split; [lia|]. split; [split; [reflexivity|cbn; lia]|]. split; [unfold valid_wd; lia|].
  split; [vm_compute; reflexivity|]. vm_compute; discriminate.
Qed.

(* the answer under fw is right exactly when it is the answer for the default: the weekday actually served *)
Theorem fw_first_of_weekday fw u p wd r : is_unit u -> wf_date p -> 0 <= fw <= 6 -> valid_wd wd ->
  fw_first_of fw u p (Some wd) = Ok r -> dow r = (wd + fw) mod 7.
Proof.
  intros Hu Hp Hfw Hwd H. rewrite fw_first_of_shift in H by (try assumption; exact Hwd). cbn [option_map] in H.
  assert (Hw : 0 <= (wd + fw) mod 7 <= 6) by lia.
  rewrite d_first_of_some in H by assumption. inversion H.
  destruct (unit_start_range u p Hu Hp) as [[A B] [C D]]. pose proof (unit_span u p Hu Hp).
  destruct (first_occ_props (unit_start u p) ((wd + fw) mod 7) Hw) as [X [Y _]].
  subst r. rewrite dow_P by lia. exact Y.
Qed.
