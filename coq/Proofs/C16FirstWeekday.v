(* Proofs/C16FirstWeekday.v — first_of / last_of / nth_of(.., 1, ..) under a process-wide calendar.setfirstweekday(fw).
   The month helpers build calendar.Calendar(calendar.MONDAY) themselves, so the layout they index with the requested weekday
   starts on Monday whatever fw is: for EVERY configured first weekday the methods are the Date functions of Model/Weekday.v,
   and every theorem of Proofs/C16Facts.v holds under every configuration.  (Finding calendar-firstweekday, now fixed: the
   helpers used to read calendar.monthcalendar, laid out from weekday fw, and answered for weekday (wd + fw) mod 7.)
   next/previous and nth_of with n >= 2 never read a calendar. *)
From Coq Require Import ZArith List Bool Lia ZifyBool.
From PV Require Import Lib.PyBase Spec.Cal Proofs.CalFacts Gen.DateGetters Model.Weekday Model.WeekdayZone Proofs.C16Facts.
Ltac Zify.zify_post_hook ::= Z.to_euclidean_division_equations.
Open Scope Z_scope.

(* ---- the calendar model: calendar.Calendar(fw).monthdayscalendar ---- *)
Lemma mc_first_fw_range fw y m : 0 <= mc_first_fw fw y m <= 6.
Proof. unfold mc_first_fw. lia. Qed.

Lemma mc_first_fw_0 y m : mc_first_fw 0 y m = mc_first y m.
Proof. unfold mc_first_fw, mc_first. pose proof (weekday0_range (ymd2ord y m 1)). lia. Qed.

(* with the default configuration the configurable calendar is the calendar of Model/Weekday.v *)
Lemma mc_get_fw_0 y m i c : mc_get_fw 0 y m i c = mc_get y m i c.
Proof. unfold mc_get_fw, mc_get, mc_rows_fw, mc_rows, mc_cell_fw, mc_cell. rewrite mc_first_fw_0. reflexivity. Qed.

Lemma fw_first_rows fw y m wd : 0 <= wd <= 6 ->
  let day := 1 + (wd - mc_first_fw fw y m) mod 7 in
  1 <= day <= 7 /\
  ((exists c0, mc_get_fw fw y m 0 wd = Ok c0 /\ (c0 >? 0) = true /\ c0 = day) \/
   (mc_get_fw fw y m 0 wd = Ok 0 /\ mc_get_fw fw y m 1 wd = Ok day)).
Proof.
  intros Hwd. unfold mc_get_fw, mc_rows_fw, mc_cell_fw.
  pose proof (mc_first_fw_range fw y m) as Hf. pose proof (dim_bounds y m) as Hd.
  generalize dependent (mc_first_fw fw y m). generalize dependent (dim y m). intros dm Hd f0 Hf. cbv zeta.
  assert (Ew : (wd <? 0) = false) by lia. rewrite !Ew.
  change (0 <? 0) with false. change (1 <? 0) with false. cbv iota.
  split; [lia|].
  destruct (Z_le_gt_dec f0 wd) as [L|G].
  - left. exists (wd - f0 + 1). repeat split; try lia.
    repeat match goal with |- context [if ?c then _ else _] => destruct c eqn:? end; try lia; f_equal; lia.
  - right. split; repeat match goal with |- context [if ?c then _ else _] => destruct c eqn:? end; try lia; f_equal; lia.
Qed.

Lemma fw_last_rows fw y m wd : 0 <= wd <= 6 ->
  let dm := dim y m in
  let day := dm - ((mc_first_fw fw y m + dm - 1) - wd) mod 7 in
  dm - 6 <= day <= dm /\
  ((exists c0, mc_get_fw fw y m (-1) wd = Ok c0 /\ (c0 >? 0) = true /\ c0 = day) \/
   (mc_get_fw fw y m (-1) wd = Ok 0 /\ mc_get_fw fw y m (-2) wd = Ok day)).
Proof.
  intros Hwd. unfold mc_get_fw, mc_rows_fw, mc_cell_fw.
  pose proof (mc_first_fw_range fw y m) as Hf. pose proof (dim_bounds y m) as Hd.
  generalize dependent (mc_first_fw fw y m). generalize dependent (dim y m). intros dm Hd f0 Hf. cbv zeta.
  assert (Ew : (wd <? 0) = false) by lia. rewrite !Ew.
  change (-1 <? 0) with true. change (-2 <? 0) with true. cbv iota.
  split; [lia|].
  destruct (Z_le_gt_dec wd ((f0 + dm - 1) mod 7)) as [L|G].
  - left. exists (dm - (f0 + dm - 1 - wd) mod 7). repeat split; try lia.
    repeat match goal with |- context [if ?c then _ else _] => destruct c eqn:? end; try lia; f_equal; lia.
  - right. split; repeat match goal with |- context [if ?c then _ else _] => destruct c eqn:? end; try lia; f_equal; lia.
Qed.

(* calendar.Calendar(calendar.MONDAY).monthdayscalendar is the calendar of Model/Weekday.v *)
Lemma mc_get_monday y m i c : mc_get_fw CAL_MONDAY y m i c = mc_get y m i c.
Proof. exact (mc_get_fw_0 y m i c). Qed.

(* ---- the month helpers do not depend on the configuration ---- *)
Lemma fw_first_of_month_any fw p o : fw_first_of_month fw p o = d_first_of_month p o.
Proof.
  destruct o as [wd|]; [|reflexivity]. unfold fw_first_of_month, d_first_of_month.
  rewrite !mc_get_monday. reflexivity.
Qed.

Lemma fw_last_of_month_any fw p o : fw_last_of_month fw p o = d_last_of_month p o.
Proof.
  destruct o as [wd|]; [|reflexivity]. unfold fw_last_of_month, d_last_of_month.
  rewrite !mc_get_monday. reflexivity.
Qed.

(* for every configured first weekday (indeed every integer) first_of / last_of are the Date functions: no hypothesis *)
Theorem fw_first_of_any fw u p o : fw_first_of fw u p o = d_first_of u p o.
Proof.
  unfold fw_first_of, d_first_of, d_first_of_quarter, d_first_of_year.
  destruct (u =? U_MONTH); [apply fw_first_of_month_any|].
  destruct (u =? U_QUARTER).
  { destruct (date_set_ymd _ _ _ _) as [q|e]; cbn [bind]; [apply fw_first_of_month_any|reflexivity]. }
  destruct (u =? U_YEAR); [|reflexivity].
  destruct (date_set_month _ _) as [q|e]; cbn [bind]; [apply fw_first_of_month_any|reflexivity].
Qed.

Theorem fw_last_of_any fw u p o : fw_last_of fw u p o = d_last_of u p o.
Proof.
  unfold fw_last_of, d_last_of, d_last_of_quarter, d_last_of_year.
  destruct (u =? U_MONTH); [apply fw_last_of_month_any|].
  destruct (u =? U_QUARTER).
  { destruct (date_set_ymd _ _ _ _) as [q|e]; cbn [bind]; [apply fw_last_of_month_any|reflexivity]. }
  destruct (u =? U_YEAR); [|reflexivity].
  destruct (date_set_month _ _) as [q|e]; cbn [bind]; [apply fw_last_of_month_any|reflexivity].
Qed.

(* nth_of: only the first occurrence is looked up in a calendar *)
Theorem fw_nth_of_from_second fw u p n wd : n <> 1 -> fw_nth_of fw u p n wd = d_nth_of u p n wd.
Proof. intros Hn. unfold fw_nth_of. destruct (n =? 1) eqn:E; [lia|reflexivity]. Qed.

Theorem fw_nth_of_first fw u p wd : is_unit u ->
  fw_nth_of fw u p 1 wd = d_first_of u p (Some wd).
Proof.
  intros Hu. unfold fw_nth_of. change (1 =? 1) with true. cbv iota.
  assert (E : (u =? U_MONTH) || (u =? U_QUARTER) || (u =? U_YEAR) = true).
  { destruct Hu as [->|[->| ->]]; reflexivity. }
  rewrite E. apply fw_first_of_any.
Qed.

Theorem fw_nth_of_any fw u p n wd : is_unit u -> wf_date p -> valid_wd wd -> 1 <= n ->
  fw_nth_of fw u p n wd = d_nth_of u p n wd.
Proof.
  intros Hu Hp Hwd Hn. destruct (Z.eq_dec n 1) as [->|N]; [|now apply fw_nth_of_from_second].
  rewrite fw_nth_of_first by assumption.
  unfold d_nth_of.
  assert (G : forall body : result pdate,
     bind (overflow_to_none (bind body (fun r => Ok (Some r)))) (fun o => match o with Some d => Ok d | None => Raise E_PendulumException end)
     = match body with Raise E_OverflowError => Raise E_PendulumException | _ => body end).
  { intros [q|e]; [reflexivity|]. destruct e; reflexivity. }
  assert (NO : d_first_of u p (Some wd) <> Raise E_OverflowError).
  { rewrite d_first_of_some by assumption. discriminate. }
  destruct Hu as [->|[->| ->]]; cbn [Z.eqb Pos.eqb U_MONTH U_QUARTER U_YEAR];
    unfold d_nth_of_month, d_nth_of_quarter, d_nth_of_year; change (1 =? 1) with true; cbv iota; rewrite G;
    destruct (d_first_of _ p (Some wd)) as [q|e]; try reflexivity; destruct e; try reflexivity; congruence.
Qed.

(* ---- the property under every configuration: the statements of C16Facts carried over ---- *)
Theorem fw_first_of_least fw u p wd : is_unit u -> wf_date p -> valid_wd wd ->
  exists q, fw_first_of fw u p (Some wd) = Ok q /\ wf_date q /\ in_unit u p q /\ dow q = wd /\
            date_ord q = unit_start u p + (wd - weekday0 (unit_start u p)) mod 7 /\
            (forall q', wf_date q' -> in_unit u p q' -> dow q' = wd -> date_ord q <= date_ord q').
Proof. rewrite fw_first_of_any. apply first_of_least. Qed.

Theorem fw_last_of_greatest fw u p wd : is_unit u -> wf_date p -> valid_wd wd ->
  exists q, fw_last_of fw u p (Some wd) = Ok q /\ wf_date q /\ in_unit u p q /\ dow q = wd /\
            date_ord q = unit_end u p - (weekday0 (unit_end u p) - wd) mod 7 /\
            (forall q', wf_date q' -> in_unit u p q' -> dow q' = wd -> date_ord q' <= date_ord q).
Proof. rewrite fw_last_of_any. apply last_of_greatest. Qed.

(* the weekday actually served is the one asked for *)
Theorem fw_first_of_weekday fw u p wd r : is_unit u -> wf_date p -> valid_wd wd ->
  fw_first_of fw u p (Some wd) = Ok r -> dow r = wd.
Proof.
  intros Hu Hp Hwd H. destruct (fw_first_of_least fw u p wd Hu Hp Hwd) as (q & E & _ & _ & D & _).
  rewrite E in H. inversion H. subst r. exact D.
Qed.

Theorem fw_last_of_weekday fw u p wd r : is_unit u -> wf_date p -> valid_wd wd ->
  fw_last_of fw u p (Some wd) = Ok r -> dow r = wd.
Proof.
  intros Hu Hp Hwd H. destruct (fw_last_of_greatest fw u p wd Hu Hp Hwd) as (q & E & _ & _ & D & _).
  rewrite E in H. inversion H. subst r. exact D.
Qed.

(* the former witnesses of the finding as ordinary instances: with the week starting on Sunday (calendar.setfirstweekday(6),
   the usual US setting) the first Monday of May 2024 is Monday 6 May (was reported as Sunday 5 May), the last Sunday of
   2024 is 29 December (was Saturday 28 December), and nth_of(.., 1, ..) agrees with first_of *)
Theorem fw_former_witnesses :
  fw_first_of 6 U_MONTH (mkdate 2024 5 17) (Some 0) = Ok (mkdate 2024 5 6) /\
  fw_last_of 6 U_YEAR (mkdate 2024 5 17) (Some 6) = Ok (mkdate 2024 12 29) /\
  fw_nth_of 6 U_MONTH (mkdate 2024 5 17) 1 0 = Ok (mkdate 2024 5 6) /\
  dow (mkdate 2024 5 6) = 0 /\ dow (mkdate 2024 12 29) = 6.
Proof. repeat split; vm_compute; reflexivity. Qed.
