(* Proofs/ZoneWindow.v — lookups only depend on the transitions near the queried instant: cutting a table to a window
   (with the offset in force at the cut as initial offset) does not change off_utc / fold_utc / off_local inside the window.
   This justifies feeding the executable model windows of the real tz tables instead of thousands of rule-generated transitions. *)
From Coq Require Import ZArith List Bool Lia ZifyBool.
From PV Require Import Spec.Zone.
Import ListNotations.
Open Scope Z_scope.

Fixpoint last_off (init : Z) (tr : list (Z * Z)) : Z :=
  match tr with [] => init | (_, o) :: r => last_off o r end.

(* every transition of pre is at or before u *)
Fixpoint passed_utc (pre : list (Z * Z)) (u : Z) : Prop :=
  match pre with [] => True | (t, _) :: r => t <= u /\ passed_utc r u end.

Lemma off_utc_drop_prefix : forall pre init mid u, passed_utc pre u ->
  off_utc_l init (pre ++ mid) u = off_utc_l (last_off init pre) mid u.
Proof.
  induction pre as [|[t o] r IH]; intros init mid u H; [reflexivity|].
  cbn [passed_utc] in H. destruct H as [Ht Hr]. cbn [app off_utc_l last_off].
  destruct (u <? t) eqn:E; [lia|]. apply IH. exact Hr.
Qed.

Definition before_first (post : list (Z * Z)) (u : Z) : Prop :=
  match post with [] => True | (t, _) :: _ => u < t end.

Lemma off_utc_drop_suffix : forall mid init post u, before_first post u ->
  off_utc_l init (mid ++ post) u = off_utc_l init mid u.
Proof.
  induction mid as [|[t o] r IH]; intros init post u H.
  - cbn [app off_utc_l]. destruct post as [|[t o] p]; [reflexivity|]. cbn [before_first] in H. cbn [off_utc_l].
    destruct (u <? t) eqn:E; [reflexivity|lia].
  - cbn [app off_utc_l]. destruct (u <? t); [reflexivity|]. apply IH. exact H.
Qed.

(* the fold flag: the transition that may set it must be inside the window, i.e. the cut is at least one overlap length before u *)
Fixpoint passed_fold (init : Z) (pre : list (Z * Z)) (u : Z) : Prop :=
  match pre with [] => True | (t, o) :: r => t <= u /\ (r = [] -> init - o <= u - t) /\ passed_fold o r u end.

Lemma fold_utc_drop_prefix : forall pre init mid u acc, pre <> [] -> passed_fold init pre u ->
  fold_utc_l init (pre ++ mid) u acc = fold_utc_l (last_off init pre) mid u false.
Proof.
  induction pre as [|[t o] r IH]; intros init mid u acc Hne H; [congruence|].
  cbn [passed_fold] in H. destruct H as [Ht [Hl Hr]]. cbn [app fold_utc_l last_off].
  destruct (u <? t) eqn:E; [lia|].
  destruct r as [|x r'].
  - cbn [app last_off]. specialize (Hl eq_refl).
    replace (u - t <? init - o) with false by lia. reflexivity.
  - apply IH; [discriminate|exact Hr].
Qed.

Lemma fold_utc_drop_suffix : forall mid init post u acc, before_first post u ->
  fold_utc_l init (mid ++ post) u acc = fold_utc_l init mid u acc.
Proof.
  induction mid as [|[t o] r IH]; intros init post u acc H.
  - cbn [app fold_utc_l]. destruct post as [|[t o] p]; [reflexivity|]. cbn [before_first] in H. cbn [fold_utc_l].
    destruct (u <? t) eqn:E; [reflexivity|lia].
  - cbn [app fold_utc_l]. destruct (u <? t); [reflexivity|]. apply IH. exact H.
Qed.

(* wall-clock lookups: every threshold of pre is at or below w; the first threshold of post is above w *)
Fixpoint passed_local (init : Z) (pre : list (Z * Z)) (w : Z) (f : bool) : Prop :=
  match pre with [] => True | (t, o) :: r => t + wallb f init o <= w /\ passed_local o r w f end.

Lemma off_local_drop_prefix : forall pre init mid w f, passed_local init pre w f ->
  off_local_l init (pre ++ mid) w f = off_local_l (last_off init pre) mid w f.
Proof.
  induction pre as [|[t o] r IH]; intros init mid w f H; [reflexivity|].
  cbn [passed_local] in H. destruct H as [Ht Hr]. cbn [app off_local_l last_off].
  destruct (w <? t + wallb f init o) eqn:E; [lia|]. apply IH. exact Hr.
Qed.

Definition before_first_local (init : Z) (post : list (Z * Z)) (w : Z) (f : bool) : Prop :=
  match post with [] => True | (t, o) :: _ => w < t + wallb f init o end.

Lemma off_local_drop_suffix : forall mid init post w f, before_first_local (last_off init mid) post w f ->
  off_local_l init (mid ++ post) w f = off_local_l init mid w f.
Proof.
  induction mid as [|[t o] r IH]; intros init post w f H.
  - cbn [app off_local_l last_off] in *. destruct post as [|[t o] p]; [reflexivity|]. cbn [before_first_local] in H. cbn [off_local_l].
    destruct (w <? t + wallb f init o) eqn:E; [reflexivity|lia].
  - cbn [app off_local_l last_off] in *. destruct (w <? t + wallb f init o); [reflexivity|]. apply IH. exact H.
Qed.

(* the statement used by the harness: a table pre ++ mid ++ post may be replaced by the window mid with the offset in force at the cut *)
Theorem window_irrelevance init pre mid post u w f :
  passed_utc pre u -> before_first post u ->
  passed_local init pre w f -> before_first_local (last_off (last_off init pre) mid) post w f ->
  off_utc_l init (pre ++ mid ++ post) u = off_utc_l (last_off init pre) mid u /\
  off_local_l init (pre ++ mid ++ post) w f = off_local_l (last_off init pre) mid w f.
Proof.
  intros H1 H2 H3 H4. split.
  - rewrite off_utc_drop_prefix by exact H1. apply off_utc_drop_suffix. exact H2.
  - rewrite off_local_drop_prefix by exact H3. apply off_local_drop_suffix. exact H4.
Qed.

Theorem window_irrelevance_fold init pre mid post u acc :
  pre <> [] -> passed_fold init pre u -> before_first post u ->
  fold_utc_l init (pre ++ mid ++ post) u acc = fold_utc_l (last_off init pre) mid u false.
Proof.
  intros H0 H1 H2. rewrite fold_utc_drop_prefix by assumption. apply fold_utc_drop_suffix. exact H2.
Qed.
