(* Proofs/C08Session.v — facts about Model/FormatterSession.v: format() / from_format() do not depend on the history of the
   process except through the default locale, and the default locale is the last set_locale that was ACCEPTED. *)
From Coq Require Import ZArith List Bool Lia.
From PV Require Import Lib.PyBase Spec.Cal Model.FormatterBase Gen.FormatterTables Gen.LocaleTables Model.Formatter Model.FormatterParse Model.FormatterSession.
Import ListNotations.
Open Scope Z_scope.

Definition is_set (o : fop) : bool := match o with FSet _ => true | _ => false end.

(* a rejected set_locale raises ValueError and leaves the configuration as it was *)
Lemma failed_set_keeps st rs now n : loads n = false -> step rs now st (FSet n) = (st, OUnit (Raise E_ValueError)).
Proof. intros H. cbn [step]. rewrite H. reflexivity. Qed.

Lemma accepted_set rs now st n : loads n = true -> step rs now st (FSet n) = (n, OUnit (Ok tt)).
Proof. intros H. cbn [step]. rewrite H. reflexivity. Qed.

(* every other operation leaves the state alone *)
Lemma non_set_keeps_state rs now st o : is_set o = false -> fst (step rs now st o) = st.
Proof. destruct o; cbn; try reflexivity; discriminate. Qed.

(* the state after a history is the last accepted name *)
Lemma final_is_last_good_set rs now : forall ops st, final rs now st ops = last_good_set ops st.
Proof.
  induction ops as [|o ops IH]; intros st; [reflexivity|].
  cbn [final last_good_set]. destruct o; cbn [step fst]; try apply IH.
  destruct (loads name); cbn [fst]; apply IH.
Qed.

(* run and final fit together *)
Lemma run_app rs now : forall a b st, run rs now st (a ++ b) = run rs now st a ++ run rs now (final rs now st a) b.
Proof.
  induction a as [|o a IH]; intros b st; [reflexivity|].
  cbn [app run final]. destruct (step rs now st o) as [st' out] eqn:E. cbn [fst]. rewrite IH. reflexivity.
Qed.

(* the output of an operation that follows a history depends on the history only through the last accepted name *)
Lemma output_after_history rs now hist st o :
  run rs now st (hist ++ [o]) = run rs now st hist ++ [snd (step rs now (last_good_set hist st) o)].
Proof.
  rewrite run_app, final_is_last_good_set. cbn [run]. destruct (step _ _ _ o). reflexivity.
Qed.

(* two histories with the same last accepted name are indistinguishable for whatever comes next *)
Lemma history_independent rs now h1 h2 st1 st2 rest :
  last_good_set h1 st1 = last_good_set h2 st2 ->
  run rs now (final rs now st1 h1) rest = run rs now (final rs now st2 h2) rest.
Proof. intros H. rewrite !final_is_last_good_set, H. reflexivity. Qed.

(* an operation that names its locale does not depend on the state at all *)
Lemma explicit_locale_ignores_state rs now st1 st2 c n zones t fmt time :
  snd (step rs now st1 (FRound (Some (c :: n)) zones t fmt)) = snd (step rs now st2 (FRound (Some (c :: n)) zones t fmt)) /\
  snd (step rs now st1 (FFormat (Some (c :: n)) t fmt)) = snd (step rs now st2 (FFormat (Some (c :: n)) t fmt)) /\
  snd (step rs now st1 (FParse (Some (c :: n)) zones time fmt)) = snd (step rs now st2 (FParse (Some (c :: n)) zones time fmt)).
Proof. repeat split; reflexivity. Qed.

(* relying on the default is the same as naming it *)
Lemma default_is_explicit rs now c n zones t fmt time :
  snd (step rs now (c :: n) (FRound None zones t fmt)) = snd (step rs now (c :: n) (FRound (Some (c :: n)) zones t fmt)) /\
  snd (step rs now (c :: n) (FFormat None t fmt)) = snd (step rs now (c :: n) (FFormat (Some (c :: n)) t fmt)) /\
  snd (step rs now (c :: n) (FParse None zones time fmt)) = snd (step rs now (c :: n) (FParse (Some (c :: n)) zones time fmt)).
Proof. repeat split; reflexivity. Qed.

(* a round trip inside a session is the stateless round trip of Model/FormatterParse.v under the effective locale *)
Lemma session_roundtrip_is_parse_of_format rs now st loc zones t fmt :
  snd (step rs now st (FRound loc zones t fmt)) =
  ORound (bind (format (normalize_locale (eff st loc)) t fmt)
               (fun s => Ok (s, parse rs zones (normalize_locale (eff st loc)) now s fmt))).
Proof. reflexivity. Qed.

(* the hypotheses are satisfiable and the machine does what the seeded history needs: fr, then de, each default-locale
   round trip of the same format gives the date back; a rejected name in between changes nothing *)
Definition ex_dt : pdt := mkpdt 2024 2 29 13 4 5 123456 true 3600 [43;48;49;58;48;48] [43;48;49;58;48;48].
Definition ex_fmt : str := [100;100;100;100;32;68;32;77;77;77;77;32;89;89;89;89].       (* "dddd D MMMM YYYY" *)
Definition ex_ops : list fop :=
  [FSet [102;114]; FRound None [] ex_dt ex_fmt; FSet [100;101]; FRound None [] ex_dt ex_fmt; FSet [116;108;104]; FRound None [] ex_dt ex_fmt; FGet].
Lemma example_session :
  map (fun o => match o with
                | ORound (Ok (_, Ok v)) => Some v
                | _ => None end) (run false (mknow 2021 3 4) initial ex_ops)
  = [None; Some (2024, 2, 29, 0, 0, 0, 0, None); None; Some (2024, 2, 29, 0, 0, 0, 0, None); None; Some (2024, 2, 29, 0, 0, 0, 0, None); None]
  /\ nth 4 (run false (mknow 2021 3 4) initial ex_ops) (OStr (Ok [])) = OUnit (Raise E_ValueError)
  /\ nth 6 (run false (mknow 2021 3 4) initial ex_ops) (OUnit (Ok tt)) = OStr (Ok [100;101]).
Proof. vm_compute. repeat split; reflexivity. Qed.
