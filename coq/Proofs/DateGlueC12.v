(* Proofs/DateGlueC12.v — C12, Date part: the ordinal model of Model/StartEndBase.v / Model/StartEnd.v (date_set, date_previous, date_next,
   date_start_of, date_end_of; Gen/StartEnd.v py_date_xxx) IS the code: it is proved EQUAL to the translation Gen/DateGlue.v of
   src/pendulum/date.py (Date.set / replace, next / previous, _start_of_UNIT / _end_of_UNIT) on the object model gdate, a Date of ordinal n being
   gdo n = mkgdate ((n - 1) * us_per_day).
   HAND-WRITTEN: the getattr dispatch of Date.start_of / end_of (wglue_Date_start_of / wglue_Date_end_of below: by cases over the translated
   _start_of_<unit>; the generator checks that the body of start_of / end_of is exactly that dispatch over _MODIFIERS_VALID_UNITS). *)
From Coq Require Import ZArith List Bool Lia ZifyBool.
From PV Require Import Lib.PyBase Spec.Cal Proofs.CalFacts Gen.Constants Model.TzGlueObj Gen.TzGlue Model.DateGlueObj Gen.DateGlue.
From PV Require Model.Weekday Proofs.C16Facts.
From PV Require Import Proofs.DateGlueFacts Model.StartEndBase Gen.StartEnd Model.StartEnd.
Import ListNotations.
Open Scope Z_scope.

Definition gres_o (r : result Z) : result gdate := match r with Ok n => Ok (gdo n) | Raise e => Raise e end.
Definition ordinal_ok (n : Z) : Prop := 1 <= n <= MAXORD.

Lemma ordinal_ok_ord n : ordinal_ok n -> ord_ok n.
Proof. exact (fun H => H). Qed.

(* ---------------- Date.set / replace = date_set (datetime.date's constructor check) *)
Theorem wglue_Date_set_ord n y m d : wglue_Date_set (gdo n) (Some y) (Some m) (Some d) = gres_o (date_set (mkdv n) y m d).
Proof.
  unfold wglue_Date_set, wglue_Date_replace. cbv zeta. rewrite !res_id'. unfold nat_date_new, date_set.
  destruct ((1 <=? y) && (y <=? 9999) && valid_dateb y m d); reflexivity.
Qed.
Theorem wglue_Date_replace_ord n y m d : wglue_Date_replace (gdo n) (Some y) (Some m) (Some d) = gres_o (date_set (mkdv n) y m d).
Proof.
  unfold wglue_Date_replace. cbv zeta. rewrite !res_id'. unfold nat_date_new, date_set.
  destruct ((1 <=? y) && (y <=? 9999) && valid_dateb y m d); reflexivity.
Qed.

Lemma gdo_year n : gd_year (gdo n) = date_year (mkdv n). Proof. exact (proj1 (gdo_fields n)). Qed.
Lemma gdo_month n : gd_month (gdo n) = date_month (mkdv n). Proof. exact (proj1 (proj2 (gdo_fields n))). Qed.
Lemma gdo_day n : gd_day (gdo n) = date_day (mkdv n). Proof. exact (proj2 (proj2 (gdo_fields n))). Qed.
Lemma gdo_dim n : gd_days_in_month (gdo n) = date_days_in_month (mkdv n).
Proof. unfold gd_days_in_month, date_days_in_month. now rewrite gdo_year, gdo_month. Qed.

(* ---------------- _start_of_<unit> / _end_of_<unit>: day, month, year, decade, century *)
Ltac unit_eq := intros; unfold wglue_Date_start_of_month, wglue_Date_end_of_month, wglue_Date_start_of_year, wglue_Date_end_of_year,
  wglue_Date_start_of_decade, wglue_Date_end_of_decade, wglue_Date_start_of_century, wglue_Date_end_of_century; cbv zeta;
  rewrite res_id', ?gdo_dim, ?gdo_year, ?gdo_month; apply wglue_Date_set_ord.
Lemma wglue_start_of_month_eq n : wglue_Date_start_of_month (gdo n) = gres_o (py_date_start_of_month (mkdv n)). Proof. unit_eq. Qed.
Lemma wglue_end_of_month_eq n : wglue_Date_end_of_month (gdo n) = gres_o (py_date_end_of_month (mkdv n)). Proof. unit_eq. Qed.
Lemma wglue_start_of_year_eq n : wglue_Date_start_of_year (gdo n) = gres_o (py_date_start_of_year (mkdv n)). Proof. unit_eq. Qed.
Lemma wglue_end_of_year_eq n : wglue_Date_end_of_year (gdo n) = gres_o (py_date_end_of_year (mkdv n)). Proof. unit_eq. Qed.
Lemma wglue_start_of_decade_eq n : wglue_Date_start_of_decade (gdo n) = gres_o (py_date_start_of_decade (mkdv n)). Proof. unit_eq. Qed.
Lemma wglue_end_of_decade_eq n : wglue_Date_end_of_decade (gdo n) = gres_o (py_date_end_of_decade (mkdv n)). Proof. unit_eq. Qed.
Lemma wglue_start_of_century_eq n : wglue_Date_start_of_century (gdo n) = gres_o (py_date_start_of_century (mkdv n)). Proof. unit_eq. Qed.
Lemma wglue_end_of_century_eq n : wglue_Date_end_of_century (gdo n) = gres_o (py_date_end_of_century (mkdv n)). Proof. unit_eq. Qed.

(* ---------------- next / previous (a given weekday) *)
Import Proofs.C16Facts.
Lemma step_eq n k : ordinal_ok n -> gres (Weekday.date_add_days (P n) k) = gres_o (date_step n k).
Proof.
  intros H. unfold Weekday.date_add_days. rewrite (proj2 (P_spec n H)). unfold Weekday.date_of_ord, date_step.
  change Weekday.MAXORD with MAXORD. destruct ((1 <=? n + k) && (n + k <=? MAXORD)) eqn:E; [|reflexivity].
  cbn [gres gres_o]. f_equal. apply gd_of_P. unfold ord_ok. change Weekday.MAXORD with MAXORD. lia.
Qed.

Lemma walk_next_eq wd : forall f n, ordinal_ok n -> gres (Weekday.d_next_loop f wd (P n)) = gres_o (date_walk f 1 wd n).
Proof.
  induction f as [|f IH]; intros n H; [reflexivity|]. cbn [Weekday.d_next_loop date_walk]. rewrite (dow_P n H).
  destruct (negb (weekday0 n =? wd)); [|cbn [gres gres_o]; f_equal; apply gd_of_P; exact H].
  pose proof (step_eq n 1 H) as S. unfold date_step in *. unfold Weekday.date_add_days, Weekday.date_of_ord in *. rewrite (proj2 (P_spec n H)) in *.
  change Weekday.MAXORD with MAXORD in *. destruct ((1 <=? n + 1) && (n + 1 <=? MAXORD)) eqn:E; cbn [bind]; [|reflexivity].
  apply (IH (n + 1)). unfold ordinal_ok. lia.
Qed.
Lemma walk_prev_eq wd : forall f n, ordinal_ok n -> gres (Weekday.d_prev_loop f wd (P n)) = gres_o (date_walk f (-1) wd n).
Proof.
  induction f as [|f IH]; intros n H; [reflexivity|]. cbn [Weekday.d_prev_loop date_walk]. rewrite (dow_P n H).
  destruct (negb (weekday0 n =? wd)); [|cbn [gres gres_o]; f_equal; apply gd_of_P; exact H].
  unfold date_step in *. unfold Weekday.date_add_days, Weekday.date_of_ord in *. rewrite (proj2 (P_spec n H)) in *.
  change Weekday.MAXORD with MAXORD in *. destruct ((1 <=? n + -1) && (n + -1 <=? MAXORD)) eqn:E; cbn [bind]; [|reflexivity].
  apply (IH (n + -1)). unfold ordinal_ok. lia.
Qed.

Theorem wglue_Date_next_ord n wd : ordinal_ok n -> 0 <= wd <= 6 -> wglue_Date_next (gdo n) (Some wd) = gres_o (date_next n wd).
Proof.
  intros H Hw. rewrite <- (gd_of_P n H). rewrite wglue_Date_next_eq by (apply P_spec; exact H).
  unfold Weekday.d_next, date_next. cbv zeta. replace (Weekday.wd_invalid wd) with false by (unfold Weekday.wd_invalid; lia).
  unfold date_step. unfold Weekday.date_add_days, Weekday.date_of_ord. rewrite (proj2 (P_spec n H)).
  change Weekday.MAXORD with MAXORD. destruct ((1 <=? n + 1) && (n + 1 <=? MAXORD)) eqn:E; cbn [bind]; [|reflexivity].
  apply (walk_next_eq wd 7%nat (n + 1)). unfold ordinal_ok. lia.
Qed.
Theorem wglue_Date_previous_ord n wd : ordinal_ok n -> 0 <= wd <= 6 -> wglue_Date_previous (gdo n) (Some wd) = gres_o (date_previous n wd).
Proof.
  intros H Hw. rewrite <- (gd_of_P n H). rewrite wglue_Date_previous_eq by (apply P_spec; exact H).
  unfold Weekday.d_previous, date_previous. cbv zeta. replace (Weekday.wd_invalid wd) with false by (unfold Weekday.wd_invalid; lia).
  unfold date_step. unfold Weekday.date_add_days, Weekday.date_of_ord. rewrite (proj2 (P_spec n H)).
  change Weekday.MAXORD with MAXORD. destruct ((1 <=? n + -1) && (n + -1 <=? MAXORD)) eqn:E; cbn [bind]; [|reflexivity].
  apply (walk_prev_eq wd 7%nat (n + -1)). unfold ordinal_ok. lia.
Qed.

(* ---------------- the week (pendulum._WEEK_STARTS_AT / _WEEK_ENDS_AT are parameters) *)
Theorem wglue_Date_start_of_week_eq n ws : ordinal_ok n -> 0 <= ws <= 6 ->
  wglue_Date_start_of_week (gdo n) ws = gres_o (date_start_of ws 4 n).
Proof.
  intros H Hw. unfold wglue_Date_start_of_week, wglue_Date_start_of_day. cbv zeta. cbn [date_start_of]. rewrite gdo_dow.
  destruct (negb (weekday0 n =? ws)); [|reflexivity]. rewrite wglue_Date_previous_ord by assumption.
  destruct (date_previous n ws); reflexivity.
Qed.
Theorem wglue_Date_end_of_week_eq n we : ordinal_ok n -> 0 <= we <= 6 ->
  wglue_Date_end_of_week (gdo n) we = gres_o (date_end_of we 4 n).
Proof.
  intros H Hw. unfold wglue_Date_end_of_week, wglue_Date_end_of_day. cbv zeta. cbn [date_end_of]. rewrite gdo_dow.
  destruct (negb (weekday0 n =? we)); [|reflexivity]. rewrite wglue_Date_next_ord by assumption.
  destruct (date_next n we); reflexivity.
Qed.

(* ---------------- start_of / end_of: the getattr dispatch (units: 3 day, 4 week, 5 month, 6 year, 7 decade, 8 century) *)
Definition wglue_Date_start_of (ws u : Z) (d : gdate) : result gdate :=
  match u with
  | 3 => wglue_Date_start_of_day d | 4 => wglue_Date_start_of_week d ws
  | 5 => wglue_Date_start_of_month d | 6 => wglue_Date_start_of_year d | 7 => wglue_Date_start_of_decade d | 8 => wglue_Date_start_of_century d
  | _ => Raise E_ValueError
  end.
Definition wglue_Date_end_of (we u : Z) (d : gdate) : result gdate :=
  match u with
  | 3 => wglue_Date_end_of_day d | 4 => wglue_Date_end_of_week d we
  | 5 => wglue_Date_end_of_month d | 6 => wglue_Date_end_of_year d | 7 => wglue_Date_end_of_decade d | 8 => wglue_Date_end_of_century d
  | _ => Raise E_ValueError
  end.

Theorem wglue_Date_start_of_eq ws u n : ordinal_ok n -> 0 <= ws <= 6 -> wglue_Date_start_of ws u (gdo n) = gres_o (date_start_of ws u n).
Proof.
  intros H Hw. unfold wglue_Date_start_of, date_start_of. cbv zeta.
  destruct u as [|p|p]; [reflexivity| |reflexivity].
  do 4 (try (destruct p as [p|p|]; try reflexivity));
    lazymatch goal with
    | |- wglue_Date_start_of_day _ = _ => reflexivity | |- wglue_Date_start_of_week _ _ = _ => apply wglue_Date_start_of_week_eq; assumption
    | |- wglue_Date_start_of_month _ = _ => apply wglue_start_of_month_eq | |- wglue_Date_start_of_year _ = _ => apply wglue_start_of_year_eq
    | |- wglue_Date_start_of_decade _ = _ => apply wglue_start_of_decade_eq | |- wglue_Date_start_of_century _ = _ => apply wglue_start_of_century_eq
    end.
Qed.
Theorem wglue_Date_end_of_eq we u n : ordinal_ok n -> 0 <= we <= 6 -> wglue_Date_end_of we u (gdo n) = gres_o (date_end_of we u n).
Proof.
  intros H Hw. unfold wglue_Date_end_of, date_end_of. cbv zeta.
  destruct u as [|p|p]; [reflexivity| |reflexivity].
  do 4 (try (destruct p as [p|p|]; try reflexivity));
    lazymatch goal with
    | |- wglue_Date_end_of_day _ = _ => reflexivity | |- wglue_Date_end_of_week _ _ = _ => apply wglue_Date_end_of_week_eq; assumption
    | |- wglue_Date_end_of_month _ = _ => apply wglue_end_of_month_eq | |- wglue_Date_end_of_year _ = _ => apply wglue_end_of_year_eq
    | |- wglue_Date_end_of_decade _ = _ => apply wglue_end_of_decade_eq | |- wglue_Date_end_of_century _ = _ => apply wglue_end_of_century_eq
    end.
Qed.
