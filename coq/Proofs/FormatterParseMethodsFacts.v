(* Proofs/FormatterParseMethodsFacts.v — C08: the hand models of the parse side (Model/FormatterParse.v: get_parsed_value, get_parsed_locale_value, get_parsed_values,
   fold_matches, check_parsed, parse; FormatterParsePrims.parse_meridiem = the a / A branch of the model) EQUAL the translation of the method bodies of /repo's formatter.py (Gen/FormatterParseMethods.v, regenerated on every run), for every token,
   text, parsed state, locale and format. *)
From Coq Require Import ZArith List Bool Lia.
From PV Require Import Lib.PyBase Spec.Cal Model.FormatterBase Gen.FormatterTables Gen.LocaleTables Model.Formatter Model.FormatterParse Model.FormatterParsePrims.
From PV Require Import Gen.FormatterParseMethods.
Import ListNotations.
Open Scope Z_scope.

Lemma str_eqb_true a : forall b, str_eqb a b = true -> a = b.
Proof.
  induction a as [|x a IH]; intros [|y b] H; try discriminate; [reflexivity|].
  cbn in H. apply andb_true_iff in H. destruct H as [H1 H2]. apply Z.eqb_eq in H1. subst. f_equal. exact (IH _ H2).
Qed.

Lemma assoc_in {A} k (l : list (str * A)) v : assoc k l = Some v -> In (k, v) l.
Proof.
  induction l as [|[k' v'] l IH]; cbn; [discriminate|].
  destruct (str_eqb k k') eqn:E; intros H.
  - injection H as <-. left. rewrite (str_eqb_true _ _ E). reflexivity.
  - right. exact (IH H).
Qed.

(* the Z / ZZ branch *)
Lemma offset_branch_eq value p :
  (let v_negative := (starts_with [45] value) in
  let v_tz := (skipn 1 value) in
  if (negb (contains 58 v_tz)) then (if (length v_tz =? 2)%nat then (let v_tz := (v_tz ++ [48; 48]) in
  let v_off_hour := (firstn 2 v_tz) in
  let v_off_minute := (firstn 2 (skipn 2 v_tz)) in
  bind (int_of_str v_off_hour) (fun t20 =>
  bind (int_of_str v_off_minute) (fun t21 =>
  let v_offset := (((t20 * 60) + t21) * 60) in
  if v_negative then (let v_offset := ((-1) * v_offset) in
  let v_parsed := (set_tz (Some (TzFixed v_offset)) p) in
  Ok v_parsed) else (let v_parsed := (set_tz (Some (TzFixed v_offset)) p) in
  Ok v_parsed)))) else (let v_off_hour := (firstn 2 v_tz) in
  let v_off_minute := (firstn 2 (skipn 2 v_tz)) in
  bind (int_of_str v_off_hour) (fun t22 =>
  bind (int_of_str v_off_minute) (fun t23 =>
  let v_offset := (((t22 * 60) + t23) * 60) in
  if v_negative then (let v_offset := ((-1) * v_offset) in
  let v_parsed := (set_tz (Some (TzFixed v_offset)) p) in
  Ok v_parsed) else (let v_parsed := (set_tz (Some (TzFixed v_offset)) p) in
  Ok v_parsed))))) else (bind (split2_colon v_tz) (fun t24 =>
  let '(v_off_hour, v_off_minute) := t24 in
  bind (int_of_str v_off_hour) (fun t25 =>
  bind (int_of_str v_off_minute) (fun t26 =>
  let v_offset := (((t25 * 60) + t26) * 60) in
  if v_negative then (let v_offset := ((-1) * v_offset) in
  let v_parsed := (set_tz (Some (TzFixed v_offset)) p) in
  Ok v_parsed) else (let v_parsed := (set_tz (Some (TzFixed v_offset)) p) in
  Ok v_parsed))))))
  = bind (parse_offset value) (fun off => Ok (set_tz (Some (TzFixed off)) p)).
Proof.
  cbv zeta. unfold parse_offset, split2_colon, int_of_str.
  assert (N : starts_with [45] value = match value with 45 :: _ => true | _ => false end).
  { unfold starts_with. destruct value as [|c t]; [reflexivity|]. cbn. destruct (45 =? c) eqn:E.
    - apply Z.eqb_eq in E. subst c. reflexivity.
    - destruct c as [|c|c]; try reflexivity. do 6 (destruct c as [c|c|]; try reflexivity; try discriminate E). }
  rewrite N. set (neg := match value with 45 :: _ => true | _ => false end). set (tz := skipn 1 value).
  destruct (negb (contains 58 tz)).
  - destruct (length tz =? 2)%nat; cbn [bind];
      (destruct (py_int (firstn 2 _)) as [hh|]; cbn [bind]; [|reflexivity]);
      (destruct (py_int (firstn 2 (skipn 2 _))) as [mm|]; cbn [bind]; [|reflexivity]); destruct neg; reflexivity.
  - destruct (split_colon tz) as [|h [|m [|x l]]]; cbn [bind]; try reflexivity.
    destruct (py_int h) as [hh|]; cbn [bind]; [|destruct (py_int m); reflexivity].
    destruct (py_int m) as [mm|]; cbn [bind]; [|reflexivity]. destruct neg; reflexivity.
Qed.

Theorem gen_get_parsed_value_eq zones tok value p : gen_get_parsed_value zones tok value p = get_parsed_value zones tok value p.
Proof.
  unfold gen_get_parsed_value, get_parsed_value, apply_parse_token.
  destruct (assoc tok parse_tokens) as [pk|] eqn:E; [|reflexivity].
  apply assoc_in in E. unfold parse_tokens in E. cbn [In] in E.
  repeat (destruct E as [E|E]; [injection E as <- <- | ]); try contradiction.
  all: unfold T_ZZ, T_Z; cbn [contains memZ existsb str_eqb Z.eqb Pos.eqb orb andb bind pv_int pv_ts negb].
  all: try (rewrite offset_branch_eq; reflexivity).
  all: try (destruct (py_int value) as [v|]; cbv beta iota zeta delta [bind pv_int pv_ts]; [|reflexivity]).
  all: try (destruct (ts_of_text _ value) as [ts|]; cbv beta iota zeta delta [bind pv_int pv_ts]; [|reflexivity]).
  all: try reflexivity.
  all: try (destruct (_ <=? 68); reflexivity).
  all: try (destruct (12 <? _); reflexivity).
  all: try (destruct (mem_str value zones); reflexivity).
Qed.

(* the a / A branch *)
Theorem gen_parse_meridiem_eq loc tok value p : gen_parse_meridiem loc tok value p = parse_meridiem loc tok value p.
Proof.
  unfold gen_parse_meridiem, parse_meridiem, T_a. cbv zeta.
  destruct (l_am loc) as [am|]; destruct (l_pm loc) as [pm|]; try reflexivity.
  cbn [need_strs fold_right bind].
  destruct (str_eqb tok [97]); cbn [andb].
  - unfold py_lower. cbn [lower_all]. unfold py_lower.
    destruct (all_ascii value); destruct (all_ascii am); destruct (all_ascii pm); cbn [bind andb negb]; try reflexivity.
    cbn [mem_str existsb index_of].
    destruct (str_eqb (map ascii_lower value) (map ascii_lower am)); cbn [orb negb bind]; [reflexivity|].
    destruct (str_eqb (map ascii_lower value) (map ascii_lower pm)); cbn [orb negb bind]; reflexivity.
  - cbn [negb mem_str existsb index_of].
    destruct (str_eqb value am); cbn [orb negb bind]; [reflexivity|].
    destruct (str_eqb value pm); cbn [orb negb bind]; reflexivity.
Qed.

Theorem gen_get_parsed_locale_value_eq loc tok value p : gen_get_parsed_locale_value loc tok value p = get_parsed_locale_value loc tok value p.
Proof.
  unfold gen_get_parsed_locale_value, gen_get_parsed_locale_value_. rewrite gen_parse_meridiem_eq.
  unfold get_parsed_locale_value, T_MMMM, T_MMM, T_Do, T_dddd, T_ddd, T_dd, T_a, T_A, leading_int, parse_meridiem. cbv zeta.
  repeat (match goal with |- (if ?c then _ else _) = (if ?c then _ else _) => destruct c end);
    try reflexivity;
    try (destruct (match_translation _ value) as [v|e]; reflexivity);
    try (destruct (leading_digits value); reflexivity).
  destruct (l_am loc), (l_pm loc); try reflexivity. cbn [bind].
  match goal with |- bind ?x _ = ?y => change y with x; destruct x; reflexivity end.
Qed.

Theorem gen_get_parsed_values_eq zones loc cs : forall names p, gen_get_parsed_values zones loc names cs p = get_parsed_values zones loc names cs p.
Proof.
  induction names as [|tok rest IH]; intros p; [reflexivity|].
  cbn [gen_get_parsed_values get_parsed_values]. unfold gen_parsed_values_step, group_of.
  destruct (assoc tok cs) as [value|]; [|destruct (existsb _ localizable_tokens); reflexivity].
  destruct (existsb _ localizable_tokens); cbn [bind].
  - rewrite gen_get_parsed_locale_value_eq. destruct (get_parsed_locale_value loc tok value p) as [p'|e]; cbn [bind]; [apply IH|reflexivity].
  - rewrite gen_get_parsed_value_eq. destruct (get_parsed_value zones tok value p) as [p'|e]; cbn [bind]; [apply IH|reflexivity].
Qed.

Lemma gen_fold_matches_eq zones loc names : forall ms p, gen_fold_matches zones loc names ms p = fold_matches zones loc names ms p.
Proof.
  induction ms as [|cs rest IH]; intros p; [reflexivity|].
  cbn [gen_fold_matches fold_matches]. rewrite gen_get_parsed_values_eq.
  destruct (get_parsed_values zones loc names cs p) as [p'|e]; cbn [bind]; [apply IH|reflexivity].
Qed.

(* ------------------------------------------------------------------ _check_parsed *)
Lemma quarter_loop_jan1 y q : quarter_loop (jan1 y) q = if (1 <=? q) && (q <=? 4) then Ok (y, 3 * (q - 1) + 1, 1) else Unsupported.
Proof.
  unfold quarter_loop. cbn [quarter_loop_f].
  change (quarter_of (jan1 y)) with 1. change (d3_day (jan1 y)) with 1. change (add3 (jan1 y)) with (y, 4, 1).
  change (quarter_of (y, 4, 1)) with 2. change (d3_day (y, 4, 1)) with 1. change (add3 (y, 4, 1)) with (y, 7, 1).
  change (quarter_of (y, 7, 1)) with 3. change (d3_day (y, 7, 1)) with 1. change (add3 (y, 7, 1)) with (y, 10, 1).
  change (quarter_of (y, 10, 1)) with 4. change (28 <? 1) with false. cbv iota.
  destruct (Z.eqb_spec 1 q); [subst; reflexivity|]. destruct (Z.eqb_spec 2 q); [subst; reflexivity|].
  destruct (Z.eqb_spec 3 q); [subst; reflexivity|]. destruct (Z.eqb_spec 4 q); [subst; reflexivity|].
  replace ((1 <=? q) && (q <=? 4)) with false; [reflexivity|]. symmetry. apply andb_false_iff. destruct (Z.leb_spec 1 q); [right; apply Z.leb_gt; lia | left; reflexivity].
Qed.

Lemma next_weekday_week_eve y m d dow :
  next_weekday (week_eve (y, m, d)) dow =
  if (dow <? 0) || (6 <? dow) then Raise E_ValueError
  else let n := ymd2ord y m d in let target := n - weekday0 n + dow in
       if (target <? 1) || (3652059 <? target) then Unsupported else Ok (ord2ymd target).
Proof.
  unfold next_weekday, week_eve. cbv zeta. replace (ymd2ord y m d - weekday0 (ymd2ord y m d) - 1 + 1 + dow) with (ymd2ord y m d - weekday0 (ymd2ord y m d) + dow) by lia. reflexivity.
Qed.

Ltac tail rs now :=
  unfold parse_ordinal, mk_date, or_z, or_else; cbv beta iota; cbn [bind negb d3_year d3_month d3_day];
  (* day of year *)
  repeat match goal with
  | |- context [if ?c then bind ((if rs then doy_to_md_rs else doy_to_md_py) ?y ?d) _ else Unsupported] =>
      destruct c; [destruct ((if rs then doy_to_md_rs else doy_to_md_py) y d) as [[? ?]|] | ]; cbv beta iota; cbn [bind negb d3_year d3_month d3_day]; try reflexivity
  end;
  (* day of week *)
  repeat match goal with
  | |- context [date_ok ?a ?b ?c] => destruct (date_ok a b c); cbv beta iota; cbn [bind negb d3_year d3_month d3_day]; try reflexivity
  end;
  try rewrite next_weekday_week_eve; cbv zeta;
  repeat match goal with
  | |- context [if ?c then Raise E_ValueError else _] => destruct c; cbv beta iota; cbn [bind negb]; try reflexivity
  | |- context [if ?c then Unsupported else _] => destruct c; cbv beta iota; cbn [bind negb]; try reflexivity
  end;
  repeat match goal with |- context [ord2ymd ?t] => destruct (ord2ymd t) as [[? ?] ?] end; cbv beta iota; cbn [bind negb d3_year d3_month d3_day]; try reflexivity.

Ltac mer pm hour :=
  destruct pm as [[|]|]; destruct hour as [h|]; cbn [bind]; try reflexivity;
  try (match goal with |- context [tuple_ge ?a ?b] => destruct (tuple_ge a b) as [[|]|] end; cbn [bind]; try rewrite Z.add_0_r; try reflexivity).

Theorem gen_check_parsed_eq rs p now : gen_check_parsed rs p now = check_parsed rs p now.
Proof.
  destruct p as [year month day hour minute second micro tz quarter dow doy pm ts].
  unfold gen_check_parsed, check_parsed. cbn [p_year p_month p_day p_hour p_minute p_second p_micro p_tz p_quarter p_dow p_doy p_pm p_ts]. cbv zeta.
  destruct ts as [[secs us]|].
  - unfold ts_has_point, ts_frac_us, ts_local_time. cbn [fst snd]. destruct ((ts_min <=? secs) && (secs <=? ts_max)); [|reflexivity].
    destruct (local_time_of rs secs us) as [[[[[[[a b] c] d] e] f] g]|]; reflexivity.
  - unfold check_parsed_fields. cbn [p_year p_month p_day p_hour p_minute p_second p_micro p_tz p_quarter p_dow p_doy p_pm p_ts].
    destruct quarter as [q|]; destruct year as [y|].
    + unfold mk_date at 1. destruct (date_ok y 1 1); cbn [negb bind]; [|reflexivity]. cbn [d3_year]. rewrite quarter_loop_jan1.
      destruct ((1 <=? q) && (q <=? 4)); cbn [bind]; [|reflexivity]. cbn [d3_year d3_month d3_day].
      destruct doy as [doy|]; destruct dow as [dow|]; tail rs now; mer pm hour.
    + unfold jan1_of_now. destruct (date_ok (n_year now) 1 1); cbn [negb bind]; [|reflexivity]. cbn [d3_year]. rewrite quarter_loop_jan1.
      destruct ((1 <=? q) && (q <=? 4)); cbn [bind]; [|reflexivity]. cbn [d3_year d3_month d3_day].
      destruct doy as [doy|]; destruct dow as [dow|]; tail rs now; mer pm hour.
    + cbn [bind]. destruct doy as [doy|]; destruct dow as [dow|]; tail rs now; mer pm hour.
    + cbn [bind]. destruct doy as [doy|]; destruct dow as [dow|]; tail rs now; mer pm hour; destruct month; reflexivity.
Qed.

Theorem gen_parse_eq rs zones lname now time fmt : gen_parse rs zones lname now time fmt = parse rs zones lname now time fmt.
Proof.
  unfold gen_parse, parse, parse_finish. cbv zeta.
  destruct (forallb _ _); [reflexivity|]. destruct (find_locale lname) as [loc|]; [|reflexivity].
  destruct (assemble loc _) as [els|e]; cbn [bind]; [|reflexivity].
  destruct (has_dup _); [reflexivity|]. destruct (negb _); [reflexivity|].
  destruct (sub_matches _ _ _) as [ms|]; [|reflexivity]. rewrite gen_fold_matches_eq.
  destruct (fold_matches _ _ _ _ _) as [p'|e]; cbn [bind]; [apply gen_check_parsed_eq|reflexivity].
Qed.

Print Assumptions gen_get_parsed_value_eq.
Print Assumptions gen_get_parsed_locale_value_eq.
Print Assumptions gen_get_parsed_values_eq.
Print Assumptions gen_parse_meridiem_eq.
Print Assumptions gen_check_parsed_eq.
Print Assumptions gen_parse_eq.
