(* Proofs/FormatterParseMethodsFacts.v — C08: the hand models of the parse side (Model/FormatterParse.v: get_parsed_value, get_parsed_locale_value, get_parsed_values,
   fold_matches, parse) EQUAL the translation of the method bodies of /repo's formatter.py (Gen/FormatterParseMethods.v, regenerated on every run), for every token,
   text, parsed state, locale and format. *)
From Coq Require Import ZArith List Bool Lia.
From PV Require Import Lib.PyBase Spec.Cal Model.FormatterBase Gen.FormatterTables Gen.LocaleTables Model.Formatter Model.FormatterParse Model.FormatterParsePrims.
From PV Require Import Gen.FormatterParseMethods.
Import ListNotations.
Open Scope Z_scope.

Lemma str_eqb_true a : forall b, str_eqb a b = true -> a = b.
Proof.
  induction a as [|x a IH]; intros [|y b] H; try discriminate; [reflexivity|].
  cbn in H. apply andb_true_iff in H. destruct H as [H1 H2]. apply Z.eqb_eq in H1. subst. f_equal. exact (IH _ H2).
Qed.

Lemma assoc_in {A} k (l : list (str * A)) v : assoc k l = Some v -> In (k, v) l.
Proof.
  induction l as [|[k' v'] l IH]; cbn; [discriminate|].
  destruct (str_eqb k k') eqn:E; intros H.
  - injection H as <-. left. rewrite (str_eqb_true _ _ E). reflexivity.
  - right. exact (IH H).
Qed.

(* the Z / ZZ branch *)
Lemma offset_branch_eq value p :
  (let v_negative := (starts_with [45] value) in
  let v_tz := (skipn 1 value) in
  if (negb (contains 58 v_tz)) then (if (length v_tz =? 2)%nat then (let v_tz := (v_tz ++ [48; 48]) in
  let v_off_hour := (firstn 2 v_tz) in
  let v_off_minute := (firstn 2 (skipn 2 v_tz)) in
  bind (int_of_str v_off_hour) (fun t20 =>
  bind (int_of_str v_off_minute) (fun t21 =>
  let v_offset := (((t20 * 60) + t21) * 60) in
  if v_negative then (let v_offset := ((-1) * v_offset) in
  let v_parsed := (set_tz (Some (TzFixed v_offset)) p) in
  Ok v_parsed) else (let v_parsed := (set_tz (Some (TzFixed v_offset)) p) in
  Ok v_parsed)))) else (let v_off_hour := (firstn 2 v_tz) in
  let v_off_minute := (firstn 2 (skipn 2 v_tz)) in
  bind (int_of_str v_off_hour) (fun t22 =>
  bind (int_of_str v_off_minute) (fun t23 =>
  let v_offset := (((t22 * 60) + t23) * 60) in
  if v_negative then (let v_offset := ((-1) * v_offset) in
  let v_parsed := (set_tz (Some (TzFixed v_offset)) p) in
  Ok v_parsed) else (let v_parsed := (set_tz (Some (TzFixed v_offset)) p) in
  Ok v_parsed))))) else (bind (split2_colon v_tz) (fun t24 =>
  let '(v_off_hour, v_off_minute) := t24 in
  bind (int_of_str v_off_hour) (fun t25 =>
  bind (int_of_str v_off_minute) (fun t26 =>
  let v_offset := (((t25 * 60) + t26) * 60) in
  if v_negative then (let v_offset := ((-1) * v_offset) in
  let v_parsed := (set_tz (Some (TzFixed v_offset)) p) in
  Ok v_parsed) else (let v_parsed := (set_tz (Some (TzFixed v_offset)) p) in
  Ok v_parsed))))))
  = bind (parse_offset value) (fun off => Ok (set_tz (Some (TzFixed off)) p)).
Proof.
  cbv zeta. unfold parse_offset, split2_colon, int_of_str.
  assert (N : starts_with [45] value = match value with 45 :: _ => true | _ => false end).
  { unfold starts_with. destruct value as [|c t]; [reflexivity|]. cbn. destruct (45 =? c) eqn:E.
    - apply Z.eqb_eq in E. subst c. reflexivity.
    - destruct c as [|c|c]; try reflexivity. do 6 (destruct c as [c|c|]; try reflexivity; try discriminate E). }
  rewrite N. set (neg := match value with 45 :: _ => true | _ => false end). set (tz := skipn 1 value).
  destruct (negb (contains 58 tz)).
  - destruct (length tz =? 2)%nat; cbn [bind];
      (destruct (py_int (firstn 2 _)) as [hh|]; cbn [bind]; [|reflexivity]);
      (destruct (py_int (firstn 2 (skipn 2 _))) as [mm|]; cbn [bind]; [|reflexivity]); destruct neg; reflexivity.
  - destruct (split_colon tz) as [|h [|m [|x l]]]; cbn [bind]; try reflexivity.
    destruct (py_int h) as [hh|]; cbn [bind]; [|destruct (py_int m); reflexivity].
    destruct (py_int m) as [mm|]; cbn [bind]; [|reflexivity]. destruct neg; reflexivity.
Qed.

Theorem gen_get_parsed_value_eq zones tok value p : gen_get_parsed_value zones tok value p = get_parsed_value zones tok value p.
Proof.
  unfold gen_get_parsed_value, get_parsed_value, apply_parse_token.
  destruct (assoc tok parse_tokens) as [pk|] eqn:E; [|reflexivity].
  apply assoc_in in E. unfold parse_tokens in E. cbn [In] in E.
  repeat (destruct E as [E|E]; [injection E as <- <- | ]); try contradiction.
  all: unfold T_ZZ, T_Z; cbn [contains memZ existsb str_eqb Z.eqb Pos.eqb orb andb bind pv_int pv_ts negb].
  all: try (rewrite offset_branch_eq; reflexivity).
  all: try (destruct (py_int value) as [v|]; cbv beta iota zeta delta [bind pv_int pv_ts]; [|reflexivity]).
  all: try (destruct (ts_of_text _ value) as [ts|]; cbv beta iota zeta delta [bind pv_int pv_ts]; [|reflexivity]).
  all: try reflexivity.
  all: try (destruct (_ <=? 68); reflexivity).
  all: try (destruct (12 <? _); reflexivity).
  all: try (destruct (mem_str value zones); reflexivity).
Qed.

Theorem gen_get_parsed_locale_value_eq loc tok value p : gen_get_parsed_locale_value loc tok value p = get_parsed_locale_value loc tok value p.
Proof.
  unfold gen_get_parsed_locale_value, gen_get_parsed_locale_value_, get_parsed_locale_value, T_MMMM, T_MMM, T_Do, T_dddd, T_ddd, T_dd, T_a, T_A, leading_int, parse_meridiem. cbv zeta.
  repeat (match goal with |- (if ?c then _ else _) = (if ?c then _ else _) => destruct c end);
    try reflexivity;
    try (destruct (match_translation _ value) as [v|e]; reflexivity);
    try (destruct (leading_digits value); reflexivity).
  destruct (l_am loc), (l_pm loc); try reflexivity. cbn [bind].
  match goal with |- bind ?x _ = ?y => change y with x; destruct x; reflexivity end.
Qed.

Theorem gen_get_parsed_values_eq zones loc cs : forall names p, gen_get_parsed_values zones loc names cs p = get_parsed_values zones loc names cs p.
Proof.
  induction names as [|tok rest IH]; intros p; [reflexivity|].
  cbn [gen_get_parsed_values get_parsed_values]. unfold gen_parsed_values_step, group_of.
  destruct (assoc tok cs) as [value|]; [|destruct (existsb _ localizable_tokens); reflexivity].
  destruct (existsb _ localizable_tokens); cbn [bind].
  - rewrite gen_get_parsed_locale_value_eq. destruct (get_parsed_locale_value loc tok value p) as [p'|e]; cbn [bind]; [apply IH|reflexivity].
  - rewrite gen_get_parsed_value_eq. destruct (get_parsed_value zones tok value p) as [p'|e]; cbn [bind]; [apply IH|reflexivity].
Qed.

Lemma gen_fold_matches_eq zones loc names : forall ms p, gen_fold_matches zones loc names ms p = fold_matches zones loc names ms p.
Proof.
  induction ms as [|cs rest IH]; intros p; [reflexivity|].
  cbn [gen_fold_matches fold_matches]. rewrite gen_get_parsed_values_eq.
  destruct (get_parsed_values zones loc names cs p) as [p'|e]; cbn [bind]; [apply IH|reflexivity].
Qed.

Theorem gen_parse_eq rs zones lname now time fmt : gen_parse rs zones lname now time fmt = parse rs zones lname now time fmt.
Proof.
  unfold gen_parse, parse, parse_finish. cbv zeta.
  destruct (forallb _ _); [reflexivity|]. destruct (find_locale lname) as [loc|]; [|reflexivity].
  destruct (assemble loc _) as [els|e]; cbn [bind]; [|reflexivity].
  destruct (has_dup _); [reflexivity|]. destruct (negb _); [reflexivity|].
  destruct (sub_matches _ _ _) as [ms|]; [|reflexivity]. rewrite gen_fold_matches_eq. reflexivity.
Qed.

Print Assumptions gen_get_parsed_value_eq.
Print Assumptions gen_get_parsed_locale_value_eq.
Print Assumptions gen_get_parsed_values_eq.
Print Assumptions gen_parse_eq.
