(* Proofs/RustParsingDatesFacts.v — C07: the hand model of the compiled parser's date conversions IS the code.  Gen/RustParsingDatesGen.v (Parser::ordinal_to_ymd
   and Parser::iso_to_ymd translated from /repo's rust/src/parsing.rs on every run by tools/vlib/rust2gallina.py, wrap-around explicit) equals
   Model/IsoParse.rs_ordinal_to_ymd / rs_iso_to_ymd on the inputs the parser produces (and far beyond): years 1..100000, |ordinal| <= 100000,
   weeks and week days below 1000.  No axioms. *)
From Coq Require Import ZArith List Bool Lia.
From PV Require Import Lib.PyBase Gen.RustConstants Model.RustInt Model.RustHelpers Gen.RustHelpersGen Proofs.RustHelpersGenFacts
                       Gen.RustParsingDatesGen Model.IsoParse.
Import ListNotations.
Open Scope Z_scope.
Ltac Zify.zify_post_hook ::= Z.to_euclidean_division_equations.

Lemma days_in_year_vals : forall y, rs_days_in_year y = 365 \/ rs_days_in_year y = 366.
Proof. intros y. unfold rs_days_in_year. destruct (rs_is_leap y); [right|left]; reflexivity. Qed.

Lemma b2z_if : forall b : bool, (if b then 1 else 0) = Z.b2z b.
Proof. intros [|]; reflexivity. Qed.

Lemma month_offsets_range : forall leap i, (leap = 0 \/ leap = 1) -> 0 <= i <= 13 -> -1 <= tidx (tidx2 RS_MONTHS_OFFSETS leap) i <= 366.
Proof.
  intros leap i Hl H.
  assert (E : i = 0 \/ i = 1 \/ i = 2 \/ i = 3 \/ i = 4 \/ i = 5 \/ i = 6 \/ i = 7 \/ i = 8 \/ i = 9 \/ i = 10 \/ i = 11 \/ i = 12 \/ i = 13) by lia.
  destruct Hl as [-> | ->]; repeat (destruct E as [->|E]; [vm_compute; split; discriminate|]); subst i; vm_compute; split; discriminate.
Qed.

Lemma for_loop_eq : forall fuel ord y leap i, 1 <= i <= 14 ->
  (match gen_rsp_ordinal_to_ymd_for1 fuel ord y leap i with LReturn r => r | LDone _ => None | LFuel => None end)
  = match rs_ord_loop fuel (tidx2 RS_MONTHS_OFFSETS leap) ord i with Some (m, d) => Some (y, m, d) | None => None end.
Proof.
  induction fuel as [|f IH]; intros ord y leap i Hi; [reflexivity|]. cbn [gen_rsp_ordinal_to_ymd_for1 rs_ord_loop].
  destruct (i <? 14) eqn:E; [|reflexivity]. apply Z.ltb_lt in E.
  rewrite (wrap_usize_small (i - 1)) by lia.
  destruct (ord <=? tidx (tidx2 RS_MONTHS_OFFSETS leap) i).
  - cbv zeta. rewrite (wrap_u32_small (i - 1)) by lia. f_equal. f_equal.
    unfold wrap_u32, wrap_u. rewrite Zminus_mod_idemp_l, Zminus_mod_idemp_r. reflexivity.
  - apply IH. lia.
Qed.

Theorem gen_rsp_ordinal_to_ymd_eq : forall year ordinal allow, 1 <= year <= 100000 -> -100000 <= ordinal <= 100000 ->
  gen_rsp_ordinal_to_ymd year ordinal allow = rs_ordinal_to_ymd year ordinal allow.
Proof.
  intros year ordinal allow Hy Ho. unfold gen_rsp_ordinal_to_ymd, rs_ordinal_to_ymd. cbv zeta.
  change gen_rs_days_in_year with rs_days_in_year. change gen_rs_is_leap with rs_is_leap.
  pose proof (days_in_year_vals (year - 1)) as D1. pose proof (days_in_year_vals year) as D0. pose proof (days_in_year_vals (year + 1)) as D2.
  rewrite (wrap_u32_small (year - 1)) by lia. rewrite (wrap_i32_small (year - 1)) by lia. rewrite (wrap_i32_small year) by lia.
  rewrite (wrap_i32_small (rs_days_in_year (year - 1))) by lia. rewrite (wrap_i32_small (rs_days_in_year year)) by lia.
  rewrite (wrap_i32_small (ordinal + rs_days_in_year (year - 1))) by lia.
  rewrite (wrap_i32_small (ordinal - rs_days_in_year year)) by lia.
  rewrite (wrap_u32_small (year + 1)) by lia. rewrite (wrap_i32_small (year + 1)) by lia.
  destruct (ordinal <? 1) eqn:E1.
  - destruct (negb allow) eqn:Ea; [reflexivity|].
    destruct (ordinal + rs_days_in_year (year - 1) >? rs_days_in_year (year - 1)) eqn:E2.
    + (* below 1 and, after adding a year, above its length: impossible, both sides follow the code *)
      rewrite (wrap_i32_small (ordinal + rs_days_in_year (year - 1) - rs_days_in_year (year - 1))) by lia.
      replace (year - 1 + 1) with year by lia. rewrite (wrap_u32_small year) by lia. rewrite (wrap_i32_small year) by lia.
      rewrite b2z_if. apply for_loop_eq. lia.
    + rewrite b2z_if. apply for_loop_eq. lia.
  - destruct (ordinal >? rs_days_in_year year) eqn:E2.
    + destruct (negb allow); [reflexivity|]. rewrite b2z_if. apply for_loop_eq. lia.
    + rewrite b2z_if. apply for_loop_eq. lia.
Qed.

Lemma week_day_range : forall y m d, 1 <= rs_week_day y m d <= 7.
Proof. intros. unfold rs_week_day. cbv zeta. destruct (Z.rem _ 7 =? 0) eqn:E; lia. Qed.

Theorem gen_rsp_iso_to_ymd_eq : forall y w d, 1 <= y <= 100000 -> 0 <= w <= 1000 -> 0 <= d <= 1000 ->
  gen_rsp_iso_to_ymd y w d = rs_iso_to_ymd y w d.
Proof.
  intros y w d Hy Hw Hd. unfold gen_rsp_iso_to_ymd, rs_iso_to_ymd. cbv zeta.
  rewrite (wrap_i32_small y) by lia. rewrite gen_rs_is_long_year_eq by lia.
  destruct ((w =? 0) || (w >? 53) || (w >? 52) && negb (rs_is_long_year y)); [reflexivity|].
  destruct ((d =? 0) || (d >? 7)); [reflexivity|].
  rewrite gen_rs_week_day_eq by lia. pose proof (week_day_range y 1 4) as WD.
  rewrite (wrap_i32_small w) by lia. rewrite (wrap_i32_small d) by lia. rewrite (wrap_i32_small (rs_week_day y 1 4)) by lia.
  rewrite (wrap_i32_small (w * 7)) by lia. rewrite (wrap_i32_small (w * 7 + d)) by lia. rewrite (wrap_i32_small (rs_week_day y 1 4 + 3)) by lia.
  rewrite (wrap_i32_small (w * 7 + d - (rs_week_day y 1 4 + 3))) by lia.
  apply gen_rsp_ordinal_to_ymd_eq; lia.
Qed.

(* ------------------------------------------------------------------ Parser::parse_integer *)
Fixpoint p10 (n : nat) : Z := match n with O => 1 | S k => 10 * p10 k end.

Lemma p10_pos : forall n, 0 < p10 n.
Proof. induction n; cbn [p10]; lia. Qed.

Lemma parse_integer_loop_eq : forall n fuel len i v s, (S n <= fuel)%nat -> len - i = Z.of_nat n -> 0 <= v -> (v + 1) * p10 n <= 4294967296 ->
  (match gen_rsp_parse_integer_for1 fuel len i v s with LReturn r => r | LFuel => None | LDone (v', s') => Some (v', s') end) = rs_parse_int n s v.
Proof.
  induction n as [|n IH]; intros fuel len i v s Hf Hl Hv Hb; (destruct fuel as [|f]; [lia|]); cbn [gen_rsp_parse_integer_for1 rs_parse_int].
  - replace (i <? len) with false by (symmetry; apply Z.ltb_ge; lia). reflexivity.
  - replace (i <? len) with true by (symmetry; apply Z.ltb_lt; lia).
    destruct s as [|c t]; [reflexivity|]. cbn [isend cur inc tl].
    destruct (is_digit c) eqn:D; [|reflexivity]. cbv zeta.
    assert (Hc : 48 <= c <= 57) by (unfold is_digit in D; lia).
    pose proof (p10_pos n) as Pn. cbn [p10] in Hb.
    assert (10 * v + 9 < 4294967296) by nia.
    rewrite (wrap_u32_small (10 * v)) by lia. rewrite (wrap_u32_small (10 * v + (c - 48))) by lia.
    apply IH; try lia. nia.
Qed.

Theorem gen_rsp_parse_integer_eq : forall s len, 0 <= len <= 9 -> gen_rsp_parse_integer s len = rs_parse_int (Z.to_nat len) s 0.
Proof.
  intros s len H. unfold gen_rsp_parse_integer. cbv zeta.
  apply parse_integer_loop_eq; try lia.
  assert (E : len = 0 \/ len = 1 \/ len = 2 \/ len = 3 \/ len = 4 \/ len = 5 \/ len = 6 \/ len = 7 \/ len = 8 \/ len = 9) by lia.
  repeat (destruct E as [->|E]; [vm_compute; discriminate|]). subst len. vm_compute. discriminate.
Qed.

Print Assumptions gen_rsp_ordinal_to_ymd_eq.
Print Assumptions gen_rsp_iso_to_ymd_eq.
Print Assumptions gen_rsp_parse_integer_eq.
