(* Proofs/DateTimeNavGlueZone.v — C16, DateTime in a tz-database zone: the model z_* of Model/WeekdayZone.v IS the code.
   For a timezone object t that is not a FixedTimezone (gz_fixed t = false; UTC included), with zone table z = gz_zone t, and every model value x with a
   date of the supported range and a time of day inside the day (wfz x), the object of x is  zobj x = dt_of (z_wall x) (z_fold x) (Some t), and
       nglue_<method> (zobj x) args  =  zres (z_<method> z x args)
   for next, previous (weekday optional, keep_time), first_of / last_of (the three units and the dispatch), _nth_of_month/quarter/year, nth_of.
   The primitives are discharged with the translated-glue lemmas of Proofs/StartEndGlueFacts.v (set / at / add(days) / subtract(days) = dt_set / step_day) and
   DateTime.create = z_create (create_sim); the control structure with the simulation of Proofs/DateTimeNavGlueFacts.v. *)
From Coq Require Import ZArith List Bool Lia ZifyBool.
From PV Require Import Lib.PyBase Spec.Cal Spec.Zone Spec.NativeDT Proofs.CalFacts Gen.AddDuration Gen.Constants Gen.DateGetters Model.TzConvert.
From PV Require Import Model.TzGlueObj Gen.TzGlue Proofs.TzGlueFacts Proofs.C03Facts Proofs.C04Facts Model.StartEndBase Gen.StartEnd Model.StartEnd.
From PV Require Import Model.StartEndGlueObj Gen.StartEndGlue Proofs.StartEndGlueFacts.
From PV Require Import Model.Weekday Proofs.C16Facts Model.WeekdayZone Model.DateTimeNavGlueObj Gen.DateTimeNavGlue Proofs.DateTimeNavGlueFacts.
Import ListNotations.
Ltac Zify.zify_post_hook ::= Z.to_euclidean_division_equations.
Open Scope Z_scope.

Lemma upd_val : us_per_day = 86400000000. Proof. reflexivity. Qed.

Lemma f_g_year W f o : f_year W = g_year (dt_of W f o). Proof. reflexivity. Qed.
Lemma f_g_month W f o : f_month W = g_month (dt_of W f o). Proof. reflexivity. Qed.
Lemma f_g_day W f o : f_day W = g_day (dt_of W f o). Proof. reflexivity. Qed.
Lemma f_g_hour W f o : f_hour W = g_hour (dt_of W f o). Proof. reflexivity. Qed.
Lemma f_g_minute W f o : f_minute W = g_minute (dt_of W f o). Proof. reflexivity. Qed.
Lemma f_g_second W f o : f_second W = g_second (dt_of W f o). Proof. reflexivity. Qed.
Lemma f_g_us W f o : f_us W = g_microsecond (dt_of W f o). Proof. reflexivity. Qed.

Section ZoneInst.
  Variable t : gtz.
  Hypothesis Hfx : gz_fixed t = false.
  Let z := gz_zone t.
  Let tzo := Some t.

  Definition zv (x : zdt) : dtv := mkdtv z 2 (z_wall x) (z_fold x).
  Definition wfz (x : zdt) : Prop := wf_date (z_date x) /\ 0 <= z_tod x < us_per_day.
  Definition zobj (x : zdt) : gdt := dt_of (z_wall x) (z_fold x) tzo.
  Definition Rz (x : zdt) (g : gdt) : Prop := g = zobj x /\ wfz x.
  Definition zres (r : result zdt) : result gdt := match r with Ok x => Ok (zobj x) | Raise e => Raise e end.

  Lemma zv_matches x : tz_matches (zv x) tzo.
  Proof. cbn. repeat split; [lia|exact Hfx]. Qed.

  Lemma zwall_split x : wfz x -> z_wall x / us_per_day + 1 = date_ord (z_date x) /\ z_wall x mod us_per_day = z_tod x.
  Proof.
    intros [_ T]. unfold z_wall, wall_of_date. rewrite upd_val in *. set (n := date_ord (z_date x)). clearbody n. split; lia.
  Qed.

  Lemma zwall_range x : wfz x -> wall_in_range (z_wall x) = true.
  Proof.
    intros [W T]. pose proof (date_ord_range _ W) as O. apply wall_in_range_iff. unfold z_wall, wall_of_date. unfold Weekday.MAXORD in O.
    rewrite upd_val in *. lia.
  Qed.

  Lemma zfields x : wfz x ->
    let g := zobj x in
    g_year g = d_year (z_date x) /\ g_month g = d_month (z_date x) /\ g_day g = d_day (z_date x) /\ g_day_of_week g = dow (z_date x) /\
    time_us (g_hour g) (g_minute g) (g_second g) (g_microsecond g) = z_tod x /\
    0 <= g_hour g <= 23 /\ 0 <= g_minute g <= 59 /\ 0 <= g_second g <= 59 /\ 0 <= g_microsecond g <= 999999.
  Proof.
    intros Wf g. pose proof (zwall_range x Wf) as Rg. destruct (zwall_split x Wf) as [Q Md].
    destruct (own_fields g Rg) as ((Hy & Hv & Hh & Hm & Hs & Hu) & Ho & Ht). cbn [g g_wall zobj dt_of] in Ho, Ht. rewrite Q in Ho. rewrite Md in Ht.
    destruct Wf as [[V Y] T].
    assert (E : (g_year g, g_month g, g_day g) = (d_year (z_date x), d_month (z_date x), d_day (z_date x))).
    { rewrite <- (ord2ymd_ymd2ord _ _ _ Hv), Ho. unfold date_ord. apply ord2ymd_ymd2ord. exact V. }
    injection E as E1 E2 E3. repeat split; try assumption; try lia.
    unfold g_day_of_week, dow. cbn [g g_wall zobj dt_of]. now rewrite Q.
  Qed.

  Lemma zdt_of_wall_R W' f' : wall_in_range W' = true -> Rz (zdt_of_wall W' f') (dt_of W' f' tzo).
  Proof.
    intros Rg. apply wall_in_range_iff in Rg.
    assert (O : 1 <= W' / us_per_day + 1 <= Weekday.MAXORD).
    { unfold Weekday.MAXORD. rewrite upd_val. clear - Rg. pose proof (Z.div_pos W' 86400000000 ltac:(lia) ltac:(lia)).
      assert (W' / 86400000000 < 3652059) by (apply Z.div_lt_upper_bound; lia). lia. }
    destruct (P_spec _ O) as [Wf Eo]. unfold Rz, zobj, wfz, zdt_of_wall. cbn [z_date z_tod z_fold]. fold (P (W' / us_per_day + 1)).
    assert (Ew : z_wall {| z_date := P (W' / us_per_day + 1); z_tod := W' mod us_per_day; z_fold := f' |} = W').
    { unfold z_wall, wall_of_date. cbn [z_date z_tod]. rewrite Eo. rewrite upd_val. lia. }
    rewrite Ew. split; [reflexivity|]. split; [exact Wf|]. rewrite upd_val. clear. lia.
  Qed.

  Notation simz := (sim zdt Rz).

  (* DateTime.create(y, m, d, h, mi, s, us, tz=self.tz, fold=f) = z_create *)
  Lemma create_sim W0 f y m d h mi s us : 0 <= h <= 23 -> 0 <= mi <= 59 -> 0 <= s <= 59 -> 0 <= us <= 999999 ->
    simz (res_of tzo (dt_set (mkdtv z 2 W0 f) y m d h mi s us)) (z_create z y m d (time_us h mi s us) f).
  Proof.
    intros Hh Hm Hs Hu. unfold dt_set, z_create, date_new. cbn [v_kind v_zone v_fold Z.eqb].
    replace (time_okb h mi s us) with true by (unfold time_okb; lia). rewrite andb_true_r.
    destruct ((1 <=? y) && (y <=? 9999) && valid_dateb y m d) eqn:V; cbn [bind]; [|reflexivity].
    assert (F : fields_ok y m d h mi s us).
    { apply andb_true_iff in V. destruct V as [V Vd]. unfold fields_ok. split; [lia|]. split; [exact Vd|lia]. }
    pose proof (valid_fields_in_range _ _ _ _ _ _ _ F) as Rg.
    assert (Ew : wall_of_date (mkdate y m d) (time_us h mi s us) = wall_of y m d h mi s us) by (rewrite wall_of_split; reflexivity).
    rewrite Ew. unfold create. cbn [Pos.eqb]. unfold convert_naive. cbv zeta.
    destruct (_ >? _).
    - match goal with |- context [wall_in_range ?w] => destruct (wall_in_range w) eqn:E end; cbn [res_of sim]; [apply zdt_of_wall_R; exact E|reflexivity].
    - cbn [andb]. rewrite andb_false_r. cbn [res_of sim]. apply zdt_of_wall_R. exact Rg.
  Qed.

  Ltac own x Wf := destruct (zfields x Wf) as (Fy & Fm & Fd & Fw & Ft & Bh & Bm & Bs & Bu); cbv zeta in Fy, Fm, Fd, Fw, Ft, Bh, Bm, Bs, Bu.

  Lemma Hz_fields x g : Rz x g -> g_year g = d_year (z_date x) /\ g_month g = d_month (z_date x) /\ g_day g = d_day (z_date x) /\ g_day_of_week g = dow (z_date x).
  Proof. intros [-> Wf]. own x Wf. repeat split; assumption. Qed.

  Lemma set_sim x oy om od : wfz x ->
    simz (glue_DateTime_set (zobj x) oy om od None None None None None)
         (z_create z (match oy with Some y => y | None => d_year (z_date x) end) (match om with Some m => m | None => d_month (z_date x) end)
                     (match od with Some d => d | None => d_day (z_date x) end) (z_tod x) (z_fold x)).
  Proof.
    intros Wf. own x Wf. change (zobj x) with (obj_of (zv x) tzo). rewrite (glue_set_dt_set (zv x) tzo oy om od None None None None (zv_matches x)).
    cbv zeta. cbn [zv v_W].
    rewrite (f_g_year (z_wall x) (z_fold x) tzo), (f_g_month (z_wall x) (z_fold x) tzo), (f_g_day (z_wall x) (z_fold x) tzo),
      (f_g_hour (z_wall x) (z_fold x) tzo), (f_g_minute (z_wall x) (z_fold x) tzo), (f_g_second (z_wall x) (z_fold x) tzo), (f_g_us (z_wall x) (z_fold x) tzo).
    fold (zobj x).
    rewrite Fy, Fm, Fd. rewrite <- Ft. apply create_sim; assumption.
  Qed.

  Lemma Hz_set_day x g d : Rz x g -> simz (glue_DateTime_set g None None (Some d) None None None None None) (z_set_day z x d).
  Proof. intros [-> Wf]. exact (set_sim x None None (Some d) Wf). Qed.
  Lemma Hz_set_month x g m : Rz x g -> simz (glue_DateTime_set g None (Some m) None None None None None None) (z_set_month z x m).
  Proof. intros [-> Wf]. exact (set_sim x None (Some m) None Wf). Qed.
  Lemma Hz_set_md x g m d : Rz x g -> simz (glue_DateTime_set g None (Some m) (Some d) None None None None None) (z_on z x (d_year (z_date x)) m d).
  Proof. intros [-> Wf]. exact (set_sim x None (Some m) (Some d) Wf). Qed.
  Lemma Hz_on x g y m d : Rz x g -> simz (glue_DateTime_on g y m d) (z_on z x y m d).
  Proof. intros [-> Wf]. unfold glue_DateTime_on. rewrite rid. exact (set_sim x (Some y) (Some m) (Some d) Wf). Qed.

  Lemma Hz_sod x g : Rz x g -> simz (sglue_start_of_day g) (z_start_of_day z x).
  Proof.
    intros [-> Wf]. own x Wf. change (zobj x) with (obj_of (zv x) tzo). rewrite (sglue_start_of_day_eq (zv x) tzo (zv_matches x)).
    unfold dt_start_of_day, set_from. cbv zeta. cbn [zv v_W Z.leb Z.compare].
    rewrite (f_g_year (z_wall x) (z_fold x) tzo), (f_g_month (z_wall x) (z_fold x) tzo), (f_g_day (z_wall x) (z_fold x) tzo). fold (zobj x).
    rewrite Fy, Fm, Fd. unfold z_start_of_day. change 0 with (time_us 0 0 0 0) at 5. apply create_sim; lia.
  Qed.

  Lemma step_sim x k : wfz x -> k = 1 \/ k = -1 -> simz (res_of tzo (step_day (zv x) k)) (z_add_days z x k).
  Proof.
    intros Wf Hk. pose proof (zwall_range x Wf) as Rg. destruct (zwall_split x Wf) as [Q Md]. own x Wf.
    unfold step_day, z_add_days. cbn [zv v_W v_kind v_zone Z.eqb Pos.eqb].
    rewrite (add_duration_cal (z_wall x) true 0 0 0 k 0 0 0 0 Rg). unfold cal_spec, cal_target. cbn [negb andb]. rewrite (ym_shift_zero _ Rg).
    unfold wall_shift. assert (Et : td_total_us (k + 7 * 0) 0 0 0 0 = k * us_per_day) by (unfold td_total_us; rewrite upd_val; lia). rewrite Et.
    rewrite Z.div_mul by (rewrite upd_val; lia).
    replace ((k <? -999999999) || (999999999 <? k)) with false by lia.
    unfold date_add_days, date_of_ord.
    assert (Er : wall_in_range (z_wall x + k * us_per_day) = (1 <=? date_ord (z_date x) + k) && (date_ord (z_date x) + k <=? Weekday.MAXORD)).
    { destruct Wf as [_ T]. unfold wall_in_range, max_wall, Weekday.MAXORD, z_wall, wall_of_date. rewrite upd_val in *. lia. }
    rewrite Er. destruct ((1 <=? date_ord (z_date x) + k) && (date_ord (z_date x) + k <=? Weekday.MAXORD)) eqn:E; cbn [bind]; [|reflexivity].
    cbn [n_wall]. fold (P (date_ord (z_date x) + k)).
    assert (O : 1 <= date_ord (z_date x) + k <= Weekday.MAXORD) by lia. destruct (P_spec _ O) as [Wp Eo]. destruct (wf_fields _ Wp) as (Py & Pm & Pd).
    unfold z_create. rewrite (date_new_ok _ _ _ Py Pm Pd). cbn [bind].
    assert (Ew : wall_of_date (mkdate (d_year (P (date_ord (z_date x) + k))) (d_month (P (date_ord (z_date x) + k))) (d_day (P (date_ord (z_date x) + k)))) (z_tod x)
                 = z_wall x + k * us_per_day).
    { replace (mkdate _ _ _) with (P (date_ord (z_date x) + k)) by (destruct (P (date_ord (z_date x) + k)); reflexivity).
      unfold wall_of_date, z_wall. rewrite Eo. unfold wall_of_date. lia. }
    rewrite Ew. unfold create, convert_naive. cbv zeta.
    pose proof Er as Rg'.
    destruct (_ >? _).
    - match goal with |- context [wall_in_range ?w] => destruct (wall_in_range w) eqn:E' end; cbn [res_of sim]; [apply zdt_of_wall_R; exact E'|reflexivity].
    - cbn [andb]. rewrite andb_false_r. cbn [res_of sim]. apply zdt_of_wall_R. exact Rg'.
  Qed.

  Lemma Hz_add x g : Rz x g -> simz (glue_DateTime_add g 0 0 0 1 0 0 0 0) (z_add_days z x 1).
  Proof.
    intros [-> Wf]. change (zobj x) with (obj_of (zv x) tzo). rewrite (glue_step_day (zv x) tzo 1 (zv_matches x) (zwall_range x Wf)) by lia.
    apply step_sim; [exact Wf|now left].
  Qed.
  Lemma Hz_sub x g : Rz x g -> simz (sglue_subtract g 0 0 0 1 0 0 0 0) (z_add_days z x (-1)).
  Proof.
    intros [-> Wf]. change (zobj x) with (obj_of (zv x) tzo). rewrite (sglue_subtract_day (zv x) tzo (zv_matches x) (zwall_range x Wf)).
    apply step_sim; [exact Wf|now right].
  Qed.

  (* ---------------- the methods *)
  Definition zreso (r : result (option zdt)) : result (option gdt) :=
    match r with Ok (Some x) => Ok (Some (zobj x)) | Ok None => Ok None | Raise e => Raise e end.
  Lemma simz_eq G r : simz G r -> G = zres r.
  Proof. destruct G as [g|e], r as [x|e']; cbn [sim zres]; try contradiction; [intros [-> _]; reflexivity|intros ->; reflexivity]. Qed.
  Lemma simzo_eq G r : simo zdt Rz G r -> G = zreso r.
  Proof.
    destruct G as [[g|]|e], r as [[x|]|e']; cbn [simo zreso]; try contradiction; try reflexivity; [intros [-> _]; reflexivity|intros ->; reflexivity].
  Qed.
  Lemma Rz_obj x : wfz x -> Rz x (zobj x). Proof. intros Wf. split; [reflexivity|exact Wf]. Qed.

  Ltac hyps := intros; lazymatch goal with
    | |- _ /\ _ => apply Hz_fields; assumption
    | |- sim _ _ (sglue_start_of_day _) _ => apply Hz_sod; assumption
    | |- sim _ _ (glue_DateTime_add _ _ _ _ _ _ _ _ _) _ => apply Hz_add; assumption
    | |- sim _ _ (sglue_subtract _ _ _ _ _ _ _ _ _) _ => apply Hz_sub; assumption
    | |- sim _ _ (glue_DateTime_set _ None None _ _ _ _ _ _) _ => apply Hz_set_day; assumption
    | |- sim _ _ (glue_DateTime_set _ None _ None _ _ _ _ _) _ => apply Hz_set_month; assumption
    | |- sim _ _ (glue_DateTime_set _ _ _ _ _ _ _ _ _) _ => apply Hz_set_md; assumption
    | |- sim _ _ (glue_DateTime_on _ _ _ _) _ => apply Hz_on; assumption
    | |- Rz _ _ => apply Rz_obj; assumption
    end.

  Theorem nglue_next_zone x wd keep : wfz x -> nglue_next (zobj x) wd keep = zres (z_next z x wd keep).
  Proof. intros Wf. rewrite <- nav_z_next. apply simz_eq. eapply sim_next; hyps. Qed.
  Theorem nglue_previous_zone x wd keep : wfz x -> nglue_previous (zobj x) wd keep = zres (z_previous z x wd keep).
  Proof. intros Wf. rewrite <- nav_z_previous. apply simz_eq. eapply sim_previous; hyps. Qed.
  Theorem nglue_first_of_zone u x wd : wfz x -> nglue_first_of u (zobj x) wd = zres (z_first_of z u x wd).
  Proof. intros Wf. rewrite <- nav_z_first_of. apply simz_eq. eapply sim_first_of; hyps. Qed.
  Theorem nglue_last_of_zone u x wd : wfz x -> nglue_last_of u (zobj x) wd = zres (z_last_of z u x wd).
  Proof. intros Wf. rewrite <- nav_z_last_of. apply simz_eq. eapply sim_last_of; hyps. Qed.
  Lemma nfo_m g wd : nglue_first_of U_MONTH g wd = nglue_first_of_month g wd. Proof. reflexivity. Qed.
  Lemma nfo_q g wd : nglue_first_of U_QUARTER g wd = nglue_first_of_quarter g wd. Proof. reflexivity. Qed.
  Lemma nfo_y g wd : nglue_first_of U_YEAR g wd = nglue_first_of_year g wd. Proof. reflexivity. Qed.
  Lemma nlo_m g wd : nglue_last_of U_MONTH g wd = nglue_last_of_month g wd. Proof. reflexivity. Qed.
  Lemma nlo_q g wd : nglue_last_of U_QUARTER g wd = nglue_last_of_quarter g wd. Proof. reflexivity. Qed.
  Lemma nlo_y g wd : nglue_last_of U_YEAR g wd = nglue_last_of_year g wd. Proof. reflexivity. Qed.
  Lemma zfo_m x wd : z_first_of z U_MONTH x wd = z_first_of_month z x wd. Proof. reflexivity. Qed.
  Lemma zfo_q x wd : z_first_of z U_QUARTER x wd = z_first_of_quarter z x wd. Proof. reflexivity. Qed.
  Lemma zfo_y x wd : z_first_of z U_YEAR x wd = z_first_of_year z x wd. Proof. reflexivity. Qed.
  Lemma zlo_m x wd : z_last_of z U_MONTH x wd = z_last_of_month z x wd. Proof. reflexivity. Qed.
  Lemma zlo_q x wd : z_last_of z U_QUARTER x wd = z_last_of_quarter z x wd. Proof. reflexivity. Qed.
  Lemma zlo_y x wd : z_last_of z U_YEAR x wd = z_last_of_year z x wd. Proof. reflexivity. Qed.
  Theorem nglue_first_of_units_zone x wd : wfz x ->
    nglue_first_of_month (zobj x) wd = zres (z_first_of_month z x wd) /\ nglue_last_of_month (zobj x) wd = zres (z_last_of_month z x wd) /\
    nglue_first_of_quarter (zobj x) wd = zres (z_first_of_quarter z x wd) /\ nglue_last_of_quarter (zobj x) wd = zres (z_last_of_quarter z x wd) /\
    nglue_first_of_year (zobj x) wd = zres (z_first_of_year z x wd) /\ nglue_last_of_year (zobj x) wd = zres (z_last_of_year z x wd).
  Proof.
    intros Wf. rewrite <- nfo_m, <- nfo_q, <- nfo_y, <- nlo_m, <- nlo_q, <- nlo_y, <- zfo_m, <- zfo_q, <- zfo_y, <- zlo_m, <- zlo_q, <- zlo_y.
    repeat split; first [apply nglue_first_of_zone | apply nglue_last_of_zone]; exact Wf.
  Qed.
  Theorem nglue_nth_of_month_zone x nth w : wfz x -> nglue_nth_of_month (zobj x) nth w = zreso (z_nth_of_month z x nth w).
  Proof. intros Wf. rewrite <- nav_z_nth_of_month. apply simzo_eq. eapply sim_nth_of_month; hyps. Qed.
  Theorem nglue_nth_of_quarter_zone x nth w : wfz x -> nglue_nth_of_quarter (zobj x) nth w = zreso (z_nth_of_quarter z x nth w).
  Proof. intros Wf. rewrite <- nav_z_nth_of_quarter. apply simzo_eq. eapply sim_nth_of_quarter; hyps. Qed.
  Theorem nglue_nth_of_year_zone x nth w : wfz x -> nglue_nth_of_year (zobj x) nth w = zreso (z_nth_of_year z x nth w).
  Proof. intros Wf. rewrite <- nav_z_nth_of_year. apply simzo_eq. eapply sim_nth_of_year; hyps. Qed.
  Theorem nglue_nth_of_zone u x nth w : wfz x -> nglue_nth_of u (zobj x) nth w = zres (z_nth_of z u x nth w).
  Proof. intros Wf. rewrite <- nav_z_nth_of. apply simz_eq. eapply sim_nth_of; hyps. Qed.
End ZoneInst.
