(* Proofs/ZoneGap.v — a skipped wall second lies in a maximal interval of skipped wall seconds whose length is exactly
   off_local w 1 - off_local w 0: "the length of the gap" in the construction rules is this difference. *)
From Coq Require Import ZArith List Bool Lia ZifyBool.
From PV Require Import Spec.Zone Proofs.ZoneFacts.
Import ListNotations.
Open Scope Z_scope.

Lemma off_local_tail_le init t o r w f : wf_l init ((t, o) :: r) = true -> w <= t + Z.max init o ->
  off_local_l o r w f = o.
Proof.
  intros Hwf Hw. destruct r as [|[t2 o2] r]; [reflexivity|].
  pose proof (wf_head _ _ _ _ _ _ Hwf). cbn [off_local_l]. unfold wallb.
  destruct f; [destruct (w <? t2 + Z.min o o2) eqn:E | destruct (w <? t2 + Z.max o o2) eqn:E]; try reflexivity; lia.
Qed.

Definition head_min (init : Z) (tr : list (Z * Z)) (a : Z) : Prop :=
  match tr with [] => True | (t, o) :: _ => t + Z.min init o <= a end.

Lemma gap_interval_l : forall tr init w, wf_l init tr = true ->
  off_local_l init tr w false < off_local_l init tr w true ->
  let o0 := off_local_l init tr w false in
  let o1 := off_local_l init tr w true in
  exists a, head_min init tr a /\ a <= w < a + (o1 - o0) /\
    (forall w', a <= w' < a + (o1 - o0) -> off_local_l init tr w' false = o0 /\ off_local_l init tr w' true = o1) /\
    (forall f, off_local_l init tr (a + (o1 - o0)) f = o1) /\
    (forall f, off_local_l init tr (a - 1) f = o0).
Proof.
  induction tr as [|[t o] r IH]; intros init w Hwf Hlt; [cbn in Hlt; lia|].
  cbn [off_local_l] in *. unfold wallb in *.
  destruct (w <? t + Z.max init o) eqn:E0; destruct (w <? t + Z.min init o) eqn:E1; try lia.
  - (* inside the head's gap *)
    rewrite (off_local_tail_small init t o r w true Hwf ltac:(lia)) in *. cbv zeta.
    exists (t + init). split; [cbn [head_min]; lia|]. split; [lia|]. split; [|split].
    + intros w' Hw'.
      assert (A : (w' <? t + Z.max init o) = true) by lia. assert (B : (w' <? t + Z.min init o) = false) by lia.
      rewrite A, B. split; [reflexivity|]. apply (off_local_tail_small init t o r w' true Hwf). lia.
    + intros f.
      assert (A : (t + init + (o - init) <? t + (if f then Z.min init o else Z.max init o)) = false) by (destruct f; lia).
      rewrite A. apply (off_local_tail_le init t o r _ f Hwf). lia.
    + intros f.
      assert (A : (t + init - 1 <? t + (if f then Z.min init o else Z.max init o)) = true) by (destruct f; lia).
      now rewrite A.
  - (* beyond the head *)
    destruct (IH o w (wf_tail _ _ _ _ Hwf) Hlt) as (a & Hh & Hin & Hall & Hend & Hleft). cbv zeta in *.
    set (o0 := off_local_l o r w false) in *. set (o1 := off_local_l o r w true) in *.
    assert (Ha : t + Z.max init o < a).
    { destruct r as [|[t2 o2] r']; [cbn in Hlt; unfold o0, o1 in *; cbn in *; lia|].
      pose proof (wf_head _ _ _ _ _ _ Hwf). cbn [head_min] in Hh. lia. }
    exists a. split; [cbn [head_min]; lia|]. split; [exact Hin|]. split; [|split].
    + intros w' Hw'.
      assert (A : (w' <? t + Z.max init o) = false) by lia. assert (B : (w' <? t + Z.min init o) = false) by lia.
      rewrite A, B. apply Hall. exact Hw'.
    + intros f.
      assert (A : (a + (o1 - o0) <? t + (if f then Z.min init o else Z.max init o)) = false) by (destruct f; lia).
      rewrite A. apply Hend.
    + intros f.
      assert (A : (a - 1 <? t + (if f then Z.min init o else Z.max init o)) = false) by (destruct f; lia).
      rewrite A. apply Hleft.
Qed.

(* the skipped wall second w lies in [a, a + g) with g = off_local w 1 - off_local w 0: every second of that interval is skipped with the
   same pre/post offsets, and the interval is maximal: the seconds just before and just after it are not skipped *)
Theorem gap_is_interval z w : wf_zone z = true -> wall_skipped z w ->
  let g := off_local z w true - off_local z w false in
  exists a, a <= w < a + g /\
    (forall w', a <= w' < a + g -> wall_skipped z w' /\ off_local z w' false = off_local z w false /\ off_local z w' true = off_local z w true) /\
    ~ wall_skipped z (a + g) /\ ~ wall_skipped z (a - 1).
Proof.
  unfold wf_zone, wall_skipped, off_local. intros Hwf Hs. cbv zeta.
  destruct (gap_interval_l _ _ w Hwf Hs) as (a & _ & Hin & Hall & Hend & Hleft). cbv zeta in *.
  exists a. split; [exact Hin|]. split; [|split].
  - intros w' Hw'. destruct (Hall w' Hw') as [A B]. rewrite A, B. split; [lia|split; reflexivity].
  - rewrite (Hend false), (Hend true). lia.
  - rewrite (Hleft false), (Hleft true). lia.
Qed.

