(* Proofs/C17Py.v — C17, pure-Python side: the post-match code of parse_iso8601 (date-time strings) analysed on EVERY capture record
   the Coq matcher can produce, hence on all strings: only ParserError / ValueError can come out. *)
From Coq Require Import ZArith List Bool Lia.
From PV Require Import Lib.PyBase Spec.Cal.
From PV Require Import Model.C07Regex Gen.IsoRegex Gen.IsoPost Model.IsoParse Model.ParseTotal Proofs.C17Total.
Import ListNotations.
Open Scope Z_scope.

Ltac brk := repeat match goal with |- context [match ?x with _ => _ end] => destruct x end.
Ltac inl := simpl; auto 10.
Definition VP : list exn := [E_ValueError; E_ParserError].

Lemma loop1_some : forall fuel ord offs d m i, Z.max 0 (14 - i) < Z.of_nat fuel -> py_iso_ordinal_md_loop1 fuel ord offs d m i <> None.
Proof.
  induction fuel as [|f IH]; intros ord offs d m i H; [simpl in H; lia|].
  simpl. destruct (i <? 14) eqn:E; [|discriminate].
  destruct (ord <=? tidx offs i); [discriminate|]. apply IH. apply Z.ltb_lt in E. lia.
Qed.

Lemma py_ordinal_md_exn y n : exn_in VP (py_iso_ordinal_md y n).
Proof.
  unfold py_iso_ordinal_md. destruct (n >? _); [inl|].
  match goal with |- context [py_iso_ordinal_md_loop1 ?f ?a ?b ?c ?d ?e] => pose proof (loop1_some f a b c d e) as H; destruct (py_iso_ordinal_md_loop1 f a b c d e) as [[[? ?] ?]|] end.
  - exact I.
  - exfalso. apply H; [simpl; lia|reflexivity].
Qed.

Lemma py_week_core_exn y w wd : exn_in VP (py_iso_week_core y w wd).
Proof. unfold py_iso_week_core. brk; inl. Qed.

Lemma py_get_week_exn y w wd : exn_in VP (py_get_week y w wd).
Proof.
  unfold py_get_week. pose proof (py_week_core_exn y w (match wd with Some x => x | None => 1 end)) as H.
  destruct (py_iso_week_core _ _ _) as [[y' ord]|e]; [|exact H]. destruct (py_strptime_Yj y' ord); inl.
Qed.

Lemma py_tz_offset_exn tz : exn_in VP (py_tz_offset tz).
Proof. unfold py_tz_offset. brk; inl. Qed.

Lemma py_datepart_exn c : exn_in VP (py_datepart c).
Proof.
  unfold py_datepart. destruct (has c G_ISO_date); [|exact I].
  destruct (has c G_ISO_isocalendar).
  - destruct (_ && _ && _); [inl|]. destruct (_ && _); [inl|].
    match goal with |- context [py_get_week ?a ?b ?d] => pose proof (py_get_week_exn a b d) as H; destruct (py_get_week a b d) as [[[? ?] ?]|] end; [exact I|exact H].
  - destruct (negb (has c G_ISO_monthday)); [exact I|]. destruct (_ && _); [|exact I].
    destruct (_ && _); [|exact I].
    match goal with |- context [py_iso_ordinal_md ?a ?b] => pose proof (py_ordinal_md_exn a b) as H; destruct (py_iso_ordinal_md a b) as [[? ?]|] end; [exact I|exact H].
Qed.

Lemma vp_of_ve {A} (r : result A) : exn_in [E_ValueError] r -> exn_in VP r.
Proof. apply exn_in_weaken. intros e [<-|[]]; simpl; auto. Qed.

Lemma py_timepart_exn c isd y m d : exn_in VP (py_timepart c isd y m d).
Proof.
  unfold py_timepart.
  destruct (_ && _); [inl|]. destruct (_ && _ && _); [inl|]. destruct (_ && _ && _); [inl|]. destruct (_ && _); [inl|].
  destruct (has c G_ISO_tz).
  - pose proof (py_tz_offset_exn (gtext c G_ISO_tz)) as H. destruct (py_tz_offset _) as [o|e]; [|exact H].
    destruct (negb isd); apply vp_of_ve; [apply mk_time_ve|apply mk_datetime_ve].
  - destruct (negb isd); apply vp_of_ve; [apply mk_time_ve|apply mk_datetime_ve].
Qed.

Lemma py_parse_iso_exn s : exn_in VP (py_parse_iso s).
Proof.
  unfold py_parse_iso. destruct (re_match ISO_RE ISO_NGROUPS s) as [c|]; [|inl].
  pose proof (py_datepart_exn c) as H. destruct (py_datepart c) as [[[[y m] d] amb]|e]; [|exact H].
  destruct (negb (has c G_ISO_time)).
  - destruct amb; [|apply vp_of_ve, mk_date_ve].
    destruct (int_of_str _); [|inl]. destruct (int_of_str _); [|inl]. destruct (int_of_str _); [|inl]. apply vp_of_ve, mk_time_ve.
  - destruct amb; [inl|]. destruct (_ && _); [inl|]. apply py_timepart_exn.
Qed.

(* every string, pure-Python date/time parser: a value, a ValueError or a ParserError *)
Lemma py_parse_iso_total s : out_ok (py_parse_iso s).
Proof. apply exn_in_ve_ok. pose proof (py_parse_iso_exn s) as H. destruct (py_parse_iso s); [exact I|]. simpl in *. tauto. Qed.
