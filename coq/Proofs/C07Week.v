(* Proofs/C07Week.v — ISO week dates -> calendar dates, both backends. *)
From Coq Require Import ZArith List Bool Lia ZifyBool.
From PV Require Import Lib.Reflect Lib.PyBase Spec.Cal Proofs.CalFacts Proofs.C15Facts Proofs.C07Cal.
From PV Require Import Gen.Constants Gen.Helpers Gen.RustConstants Model.RustHelpers Gen.IsoPost Model.IsoParse.
Import ListNotations.
Ltac Zify.zify_post_hook ::= Z.to_euclidean_division_equations.
Open Scope Z_scope.

Lemma ymd2ord_jan4 y : ymd2ord y 1 4 = ymd2ord y 1 1 + 3.
Proof. unfold ymd2ord. lia. Qed.

(* the "ordinal" both parsers compute is the day of the year (possibly outside 1..days_in_year) of the week date *)
Lemma week_ordinal_eq y w wd :
  ymd2ord y 1 1 + (w * 7 + wd - (iso_weekday (ymd2ord y 1 4) + 3)) - 1 = fromisocalendar_ord y w wd.
Proof.
  rewrite ymd2ord_jan4. unfold fromisocalendar_ord, iso_week1_monday, iso_weekday.
  generalize (ymd2ord y 1 1). intros J. cbv zeta. destruct (3 <? (J + 6) mod 7) eqn:E; lia.
Qed.

Lemma week_ordinal_bounds y w wd : 1 <= w <= 53 -> 1 <= wd <= 7 ->
  -2 <= w * 7 + wd - (iso_weekday (ymd2ord y 1 4) + 3) <= 374.
Proof. intros. pose proof (iso_weekday_range (ymd2ord y 1 4)). lia. Qed.

Lemma ymd2ord_jan1_prev y : ymd2ord (y - 1) 1 1 = ymd2ord y 1 1 - days_in_year (y - 1).
Proof. rewrite !ymd2ord_jan1'. pose proof (days_before_year_succ (y - 1)). replace (y - 1 + 1) with y in H by lia. lia. Qed.
Lemma ymd2ord_jan1_next y : ymd2ord (y + 1) 1 1 = ymd2ord y 1 1 + days_in_year y.
Proof. rewrite !ymd2ord_jan1'. pose proof (days_before_year_succ y). lia. Qed.

Lemma diy_cases y : days_in_year y = 365 \/ days_in_year y = 366.
Proof. unfold days_in_year. destruct (is_leap y); lia. Qed.

(* the weeks of a year: the ordinal stays within one year of the ISO year *)
Lemma week_ordinal_upper y w wd : 1 <= w <= iso_weeks_in_year y -> 1 <= wd <= 7 ->
  w * 7 + wd - (iso_weekday (ymd2ord y 1 4) + 3) <= days_in_year y + 3.
Proof.
  intros Hw Hwd. pose proof (week_ordinal_eq y w wd) as E. unfold fromisocalendar_ord in E.
  unfold iso_weeks_in_year in Hw.
  assert (N : iso_week1_monday (y + 1) <= ymd2ord (y + 1) 1 1 + 3).
  { unfold iso_week1_monday. generalize (ymd2ord (y + 1) 1 1). intros J. cbv zeta. destruct (3 <? (J + 6) mod 7) eqn:E'; lia. }
  rewrite ymd2ord_jan1_next in N.
  assert (D : (iso_week1_monday (y + 1) - iso_week1_monday y) mod 7 = 0).
  { unfold iso_week1_monday. generalize (ymd2ord (y + 1) 1 1) (ymd2ord y 1 1). intros J1 J0. cbv zeta.
    destruct (3 <? (J1 + 6) mod 7); destruct (3 <? (J0 + 6) mod 7); lia. }
  lia.
Qed.

(* ------------------------------------------------------------------ Python *)
Lemma py_strptime_ok y n : 1000 <= y <= 9999 -> 1 <= n <= days_in_year y ->
  py_strptime_Yj y n = Ok (ord2ymd (ymd2ord y 1 1 + n - 1)).
Proof.
  intros Hy Hn. unfold py_strptime_Yj.
  assert (B : ymd2ord y 1 1 + n - 1 <= 3652059).
  { rewrite ymd2ord_jan1'. pose proof (days_before_year_succ y). pose proof (days_before_year_mono (y + 1) 10000 ltac:(lia)).
    change (days_before_year 10000) with 3652059 in H0. lia. }
  pose proof (diy_cases y).
  replace ((1000 <=? y) && (y <=? 9999) && (1 <=? n) && (n <=? 366) && (ymd2ord y 1 1 + n - 1 <=? 3652059)) with true by lia.
  reflexivity.
Qed.

Lemma py_week_not_rejected y w : 1 <= w <= iso_weeks_in_year y ->
  (w <? 1) || (w >? 53) || ((w >? 52) && negb (py_is_long_year y)) = false.
Proof. intros H. rewrite py_is_long_year_spec. pose proof (iso_weeks_52_53 y). lia. Qed.

Theorem py_week_spec y w wd : 1001 <= y <= 9998 -> 1 <= w <= iso_weeks_in_year y -> 1 <= wd <= 7 ->
  py_get_week y w (Some wd) = Ok (ord2ymd (fromisocalendar_ord y w wd)).
Proof.
  intros Hy Hw Hwd. unfold py_get_week, py_iso_week_core.
  rewrite py_week_not_rejected by assumption.
  replace ((wd <? 1) || (wd >? 7)) with false by lia.
  rewrite py_week_day_spec by lia. change py_days_in_year with days_in_year.
  pose proof (iso_weeks_52_53 y) as W.
  pose proof (week_ordinal_bounds y w wd ltac:(lia) Hwd) as B.
  pose proof (week_ordinal_upper y w wd Hw Hwd) as U.
  pose proof (week_ordinal_eq y w wd) as E.
  set (o := w * 7 + wd - (iso_weekday (ymd2ord y 1 4) + 3)) in *.
  pose proof (diy_cases y) as D0. pose proof (diy_cases (y - 1)) as D1.
  destruct (o <? 1) eqn:C1.
  - (* previous year *)
    replace (o + days_in_year (y - 1) >? days_in_year (y - 1)) with false by lia.
    rewrite py_strptime_ok by lia. rewrite ymd2ord_jan1_prev. do 2 f_equal. lia.
  - destruct (o >? days_in_year y) eqn:C2.
    + pose proof (diy_cases (y + 1)). rewrite py_strptime_ok by lia. rewrite ymd2ord_jan1_next. do 2 f_equal. lia.
    + rewrite py_strptime_ok by lia. do 2 f_equal. lia.
Qed.

(* every impossible week date is refused: week 00, a week beyond the last week of the year, weekday 0, weekday above 7
   (finding week-zero-accepted repaired: the lower bounds are checked too) *)
Theorem py_week_reject y w wd : (w < 1 \/ w > iso_weeks_in_year y) \/ (wd < 1 \/ wd > 7) ->
  py_get_week y w (Some wd) = Raise E_ParserError.
Proof.
  intros H. unfold py_get_week, py_iso_week_core. rewrite py_is_long_year_spec. pose proof (iso_weeks_52_53 y).
  destruct ((w <? 1) || (w >? 53) || (w >? 52) && negb (iso_weeks_in_year y =? 53)) eqn:A; [reflexivity|].
  destruct ((wd <? 1) || (wd >? 7)) eqn:B; [reflexivity|]. lia.
Qed.

(* the former witnesses of finding week-zero-accepted (they used to come back as 2020-12-28 and 2021-01-03) *)
Theorem week_zero_rejected_witnesses :
  py_get_week 2021 0 (Some 1) = Raise E_ParserError /\ rs_iso_to_ymd 2021 0 1 = None /\
  py_get_week 2021 1 (Some 0) = Raise E_ParserError /\ rs_iso_to_ymd 2021 1 0 = None.
Proof. vm_compute. repeat split; reflexivity. Qed.

(* the pure-Python week conversion goes through strptime("%Y-%j"), whose %Y wants four digits: years below 1000 fail *)
Theorem py_week_small_year_rejected :
  py_get_week 999 10 (Some 1) = Raise E_ParserError /\ rs_iso_to_ymd 999 10 1 = Some (999, 3, 4).
Proof. vm_compute. split; reflexivity. Qed.

(* ------------------------------------------------------------------ Rust *)
Lemma rs_long_year_spec y : 1 <= y -> rs_is_long_year y = (iso_weeks_in_year y =? 53).
Proof. intros. rewrite rs_is_long_year_eq_py by lia. apply py_is_long_year_spec. Qed.

(* ordinal_to_ymd with allow_out_of_bounds = true, reduced to the in-year loop of the adjusted year *)
Lemma rs_ordinal_oob y o : 1 <= y -> -10 <= o <= days_in_year y + 3 ->
  rs_ordinal_to_ymd y o true =
    if o <? 1 then rs_ordinal_to_ymd (y - 1) (o + days_in_year (y - 1)) false
    else if o >? days_in_year y then rs_ordinal_to_ymd (y + 1) (o - days_in_year y) false
    else rs_ordinal_to_ymd y o false.
Proof.
  intros Hy Ho. unfold rs_ordinal_to_ymd. cbn [negb].
  pose proof (diy_cases y) as D0. pose proof (diy_cases (y - 1)) as D1. pose proof (diy_cases (y + 1)) as D2.
  destruct (o <? 1) eqn:C1.
  - repeat (cbv beta iota; rewrite ?(rs_days_in_year_spec (y - 1)) by lia).
    replace (o + days_in_year (y - 1) <? 1) with false by lia.
    repeat (cbv beta iota; rewrite ?(rs_days_in_year_spec (y - 1)) by lia).
    replace (o + days_in_year (y - 1) >? days_in_year (y - 1)) with false by lia. reflexivity.
  - repeat (cbv beta iota; rewrite ?(rs_days_in_year_spec y) by lia).
    destruct (o >? days_in_year y) eqn:C2.
    + repeat (cbv beta iota; rewrite ?(rs_days_in_year_spec (y + 1)) by lia).
      replace (o - days_in_year y <? 1) with false by lia.
      repeat (cbv beta iota; rewrite ?(rs_days_in_year_spec (y + 1)) by lia).
      replace (o - days_in_year y >? days_in_year (y + 1)) with false by lia. reflexivity.
    + cbv beta iota. reflexivity.
Qed.

(* full strength (finding rs-ordinal-month-end repaired): the Rust week conversion equals date.fromisocalendar for every
   ISO year >= 1, every week of that year and every weekday — month ends and year ends included *)
Theorem rs_week_spec y w wd : 1 <= y -> 1 <= w <= iso_weeks_in_year y -> 1 <= wd <= 7 ->
  rs_iso_to_ymd y w wd = Some (ord2ymd (fromisocalendar_ord y w wd)).
Proof.
  intros Hy Hw Hwd. unfold rs_iso_to_ymd.
  rewrite rs_long_year_spec by lia. pose proof (iso_weeks_52_53 y) as W.
  replace ((w =? 0) || (w >? 53) || (w >? 52) && negb (iso_weeks_in_year y =? 53)) with false by lia.
  replace ((wd =? 0) || (wd >? 7)) with false by lia.
  rewrite rs_week_day_spec by lia.
  pose proof (week_ordinal_bounds y w wd ltac:(lia) Hwd) as B.
  pose proof (week_ordinal_upper y w wd Hw Hwd) as U.
  pose proof (week_ordinal_eq y w wd) as E.
  set (o := w * 7 + wd - (iso_weekday (ymd2ord y 1 4) + 3)) in *.
  rewrite rs_ordinal_oob by lia.
  pose proof (diy_cases y) as D0. pose proof (diy_cases (y - 1)) as D1. pose proof (diy_cases (y + 1)) as D2.
  assert (G : forall y' n, 0 <= y' -> 1 <= n <= days_in_year y' -> ymd2ord y' 1 1 + n - 1 = fromisocalendar_ord y w wd ->
              rs_ordinal_to_ymd y' n false = Some (ord2ymd (fromisocalendar_ord y w wd))).
  { intros y' n Hy' Hn Eq. rewrite <- Eq. apply rs_ordinal_spec; assumption. }
  destruct (o <? 1) eqn:C1; [|destruct (o >? days_in_year y) eqn:C2].
  - apply G; try lia. rewrite ymd2ord_jan1_prev. lia.
  - apply G; try lia. rewrite ymd2ord_jan1_next. lia.
  - apply G; lia.
Qed.

Example rs_week_spec_hyps_satisfiable : 1 <= 2021 /\ 1 <= 13 <= iso_weeks_in_year 2021 /\ 1 <= 3 <= 7.
Proof. vm_compute. repeat split; discriminate. Qed.

(* the former witnesses of the finding: week dates whose day is the last day of a month / of the year *)
Theorem rs_week_month_end_witnesses :
  rs_iso_to_ymd 2021 13 3 = Some (2021, 3, 31) /\ rs_iso_to_ymd 2020 53 4 = Some (2020, 12, 31) /\
  rs_iso_to_ymd 2024 9 4 = Some (2024, 2, 29) /\ rs_iso_to_ymd 2019 1 1 = Some (2018, 12, 31).
Proof. vm_compute. repeat split; reflexivity. Qed.

(* both backends agree on every week date of the years the pure-Python path supports (strptime's four-digit %Y) *)
Theorem rs_week_eq_py y w wd : 1001 <= y <= 9998 -> 1 <= w <= iso_weeks_in_year y -> 1 <= wd <= 7 ->
  exists r, py_get_week y w (Some wd) = Ok r /\ rs_iso_to_ymd y w wd = Some r.
Proof.
  intros Hy Hw Hwd. exists (ord2ymd (fromisocalendar_ord y w wd)). split.
  - apply py_week_spec; assumption.
  - apply rs_week_spec; try assumption; lia.
Qed.

(* iso_week and iso_day are u32 in the compiled parser: on that domain every impossible week date is refused *)
Theorem rs_week_reject y w wd : 1 <= y -> 0 <= w -> 0 <= wd -> (w < 1 \/ w > iso_weeks_in_year y) \/ (wd < 1 \/ wd > 7) ->
  rs_iso_to_ymd y w wd = None.
Proof.
  intros Hy Hw Hwd H. unfold rs_iso_to_ymd. rewrite rs_long_year_spec by lia. pose proof (iso_weeks_52_53 y).
  destruct ((w =? 0) || (w >? 53) || (w >? 52) && negb (iso_weeks_in_year y =? 53)) eqn:A; [reflexivity|].
  destruct ((wd =? 0) || (wd >? 7)) eqn:B; [reflexivity|]. lia.
Qed.

(* accepted exactly when the week date exists (both backends; the Python statement within strptime's year range) *)
Theorem rs_week_accepts_iff y w wd : 1 <= y -> 0 <= w -> 0 <= wd ->
  (rs_iso_to_ymd y w wd <> None <-> 1 <= w <= iso_weeks_in_year y /\ 1 <= wd <= 7).
Proof.
  intros Hy Hw Hwd. split.
  - intros NN. destruct (Z_le_dec 1 w), (Z_le_dec w (iso_weeks_in_year y)), (Z_le_dec 1 wd), (Z_le_dec wd 7); try lia;
      exfalso; apply NN; apply rs_week_reject; lia.
  - intros [A B]. rewrite rs_week_spec by assumption. discriminate.
Qed.

Theorem py_week_accepts_iff y w wd : 1001 <= y <= 9998 ->
  ((exists r, py_get_week y w (Some wd) = Ok r) <-> 1 <= w <= iso_weeks_in_year y /\ 1 <= wd <= 7).
Proof.
  intros Hy. split.
  - intros [r E]. destruct (Z_le_dec 1 w), (Z_le_dec w (iso_weeks_in_year y)), (Z_le_dec 1 wd), (Z_le_dec wd 7); try lia;
      rewrite py_week_reject in E by lia; discriminate.
  - intros [A B]. eexists. apply py_week_spec; assumption.
Qed.
