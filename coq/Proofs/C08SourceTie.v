(* Proofs/C08SourceTie.v — pins the methods that Model/Formatter.v and Model/FormatterParse.v model by hand.
   Gen/FormatterTables.v carries sha256(ast.dump(method)) of /repo's current source (python3 of this environment); if one of them
   changes, this file stops compiling and ./check C08 reports the proof as broken (the correspondence run still runs). *)
From Coq Require Import List String.
From PV Require Import Gen.FormatterTables.
Import ListNotations.

Lemma hand_modelled_sources_unchanged : source_fingerprints = [
  ("Formatter.format"%string, "93e6b7f27a9351f22bba"%string);
  ("Formatter._format_token"%string, "60ec43dc28aa4b9b2d39"%string);
  ("Formatter._format_localizable_token"%string, "2762cee721056c50cab8"%string);
  ("Formatter.parse"%string, "58c967dd2fddf7c217a3"%string);
  ("Formatter._check_parsed"%string, "fd22e60bd02b337683e3"%string);
  ("Formatter._get_parsed_values"%string, "dbabc0f8abc969f4e19c"%string);
  ("Formatter._get_parsed_value"%string, "1dd768b4d36322dac568"%string);
  ("Formatter._get_parsed_locale_value"%string, "170128e2939a77f8fdb3"%string);
  ("Formatter._replace_tokens"%string, "1bb2f543e71a59ad7d88"%string);
  ("Locale.get"%string, "29fcfbe4e379bf18b213"%string);
  ("Locale.translation"%string, "8d767f9bdcfca6303ba0"%string);
  ("Locale.ordinal"%string, "05aee6840ebc77116cd0"%string);
  ("Locale.ordinalize"%string, "dd8f072be7298340c4aa"%string);
  ("Locale.match_translation"%string, "7b5ce5e886c4488d1ebb"%string);
  ("DateTime._to_string"%string, "e2c9b9f2a63afadfdab7"%string);
  ("DateTime.int_timestamp"%string, "680672bbc6ef779b9987"%string)].
Proof. reflexivity. Qed.
