(* Proofs/C07Lex.v — lexical core of C07: decimal fields, fractions, offsets. *)
From Coq Require Import ZArith List Bool Lia ZifyBool.
From PV Require Import Lib.Reflect Lib.PyBase Spec.Cal Model.C07Regex Model.IsoParse Model.IsoRender.
Import ListNotations.
Ltac Zify.zify_post_hook ::= Z.to_euclidean_division_equations.
Open Scope Z_scope.

Definition dec_fold (acc : Z) (l : list Z) : Z := fold_left (fun a ch => 10 * a + (ch - 48)) l acc.
Lemma int_of_fold l : int_of l = dec_fold 0 l. Proof. reflexivity. Qed.

(* ---- Rust parse_integer: n ASCII digits parse to their decimal value, whatever follows *)
Lemma rs_parse_int_fold ds : forall rest acc, forallb is_digit ds = true ->
  rs_parse_int (length ds) (ds ++ rest) acc = Some (dec_fold acc ds, rest).
Proof.
  induction ds as [|c ds IH]; intros rest acc H; [reflexivity|].
  cbn [forallb] in H. apply andb_true_iff in H. destruct H as [Hc Hd].
  cbn [length rs_parse_int app]. rewrite Hc. rewrite IH by assumption. reflexivity.
Qed.

Theorem rs_parse_integer_digits ds rest : forallb is_digit ds = true ->
  rs_parse_int (length ds) (ds ++ rest) 0 = Some (int_of ds, rest).
Proof. intros. now rewrite rs_parse_int_fold. Qed.

(* a non-digit where a digit is expected is an error *)
Theorem rs_parse_integer_rejects n c rest acc : is_digit c = false -> rs_parse_int (S n) (c :: rest) acc = None.
Proof. intros H. cbn [rs_parse_int]. now rewrite H. Qed.

(* ---- zero-padded decimal rendering is inverted by int() / parse_integer *)
Lemma is_digit_dg a : 0 <= a <= 9 -> is_digit (dg a) = true.
Proof. unfold is_digit, dg. lia. Qed.

Theorem int_of_render2 n : 0 <= n < 100 -> int_of (render2 n) = n /\ forallb is_digit (render2 n) = true.
Proof. intros H. unfold render2, int_of, dg, is_digit. cbn [fold_left forallb]. lia. Qed.
Theorem int_of_render3 n : 0 <= n < 1000 -> int_of (render3 n) = n /\ forallb is_digit (render3 n) = true.
Proof. intros H. unfold render3, int_of, dg, is_digit. cbn [fold_left forallb]. lia. Qed.
Theorem int_of_render4 n : 0 <= n < 10000 -> int_of (render4 n) = n /\ forallb is_digit (render4 n) = true.
Proof. intros H. unfold render4, render2, int_of, dg, is_digit. cbn [fold_left forallb app]. lia. Qed.
Theorem int_of_render6 n : 0 <= n < 1000000 -> int_of (render6 n) = n /\ forallb is_digit (render6 n) = true.
Proof. intros H. unfold render6, render2, int_of, dg, is_digit. cbn [fold_left forallb app]. lia. Qed.

(* ---- fractions: microseconds = the first six digits, right-padded with zeros (extra digits dropped) *)
Definition frac_us (ds : list Z) : Z :=
  int_of (firstn 6 ds) * 10 ^ (6 - Z.of_nat (length (firstn 6 ds))).

Lemma dec_fold_app a l1 l2 : dec_fold a (l1 ++ l2) = dec_fold (dec_fold a l1) l2.
Proof. unfold dec_fold. apply fold_left_app. Qed.

Lemma dec_fold_zeros k : forall a, dec_fold a (repeat 48 k) = a * 10 ^ Z.of_nat k.
Proof.
  induction k as [|k IH]; intros a; [cbn; lia|].
  cbn [repeat]. change (dec_fold a (48 :: repeat 48 k)) with (dec_fold (10 * a + (48 - 48)) (repeat 48 k)).
  rewrite IH. rewrite Nat2Z.inj_succ, Z.pow_succ_r by lia. lia.
Qed.

(* Python: int(f"{subsecond[:6]:0<6}") *)
Theorem py_fraction_trunc ds : (1 <= length ds)%nat ->
  int_of (pad6r (firstn 6 ds)) = frac_us ds.
Proof.
  intros H. unfold pad6r, frac_us. rewrite int_of_fold, dec_fold_app, dec_fold_zeros, <- int_of_fold.
  f_equal. f_equal. pose proof (firstn_le_length 6 ds) as H0. revert H0. generalize (length (firstn 6 ds)). intros k Hk. rewrite Nat2Z.inj_sub by exact Hk. reflexivity.
Qed.

Lemma rs_frac6_fold ds : forall n rest acc cnt, (length ds <= n)%nat -> forallb is_digit ds = true -> is_digit (cur rest) = false ->
  rs_frac6 n (ds ++ rest) acc cnt = (dec_fold acc ds, cnt + Z.of_nat (length ds), rest).
Proof.
  induction ds as [|c ds IH]; intros n rest acc cnt Hl Hd Hr.
  - cbn [app length]. replace (cnt + Z.of_nat 0) with cnt by lia. destruct n; [reflexivity|].
    destruct rest as [|r rest]; [reflexivity|]. cbn [rs_frac6]. cbn [cur] in Hr. now rewrite Hr.
  - cbn [forallb] in Hd. apply andb_true_iff in Hd. destruct Hd as [Hc Hd].
    destruct n; [cbn in Hl; lia|]. cbn [app rs_frac6]. rewrite Hc.
    rewrite IH by (cbn in Hl; try lia; assumption).
    replace (acc * 10 + (c - 48)) with (10 * acc + (c - 48)) by lia.
    change (dec_fold acc (c :: ds)) with (dec_fold (10 * acc + (c - 48)) ds).
    f_equal. f_equal. cbn [length]. lia.
Qed.

Lemma rs_frac6_exact ds : forall more acc cnt, forallb is_digit ds = true ->
  rs_frac6 (length ds) (ds ++ more) acc cnt = (dec_fold acc ds, cnt + Z.of_nat (length ds), more).
Proof.
  induction ds as [|c ds IH]; intros more acc cnt Hd.
  - cbn. f_equal. f_equal. lia.
  - cbn [forallb] in Hd. apply andb_true_iff in Hd. destruct Hd as [Hc Hd].
    cbn [length app rs_frac6]. rewrite Hc. rewrite IH by assumption.
    replace (acc * 10 + (c - 48)) with (10 * acc + (c - 48)) by lia.
    change (dec_fold acc (c :: ds)) with (dec_fold (10 * acc + (c - 48)) ds).
    f_equal. f_equal. lia.
Qed.

Lemma drop_digits_app ds : forall rest, forallb is_digit ds = true -> is_digit (cur rest) = false -> drop_digits (ds ++ rest) = rest.
Proof.
  induction ds as [|c ds IH]; intros rest Hd Hr.
  - cbn [app]. destruct rest as [|r rest]; [reflexivity|]. cbn [drop_digits]. cbn [cur] in Hr. now rewrite Hr.
  - cbn [forallb] in Hd. apply andb_true_iff in Hd. destruct Hd as [Hc Hd]. cbn [app drop_digits]. rewrite Hc. now apply IH.
Qed.

Lemma forallb_firstn {A} (f : A -> bool) n l : forallb f l = true -> forallb f (firstn n l) = true.
Proof. revert n; induction l as [|a l IH]; intros n H; destruct n; cbn in *; try reflexivity. apply andb_true_iff in H. destruct H. rewrite H. cbn. now apply IH. Qed.
Lemma forallb_skipn {A} (f : A -> bool) n l : forallb f l = true -> forallb f (skipn n l) = true.
Proof. revert n; induction l as [|a l IH]; intros n H; destruct n; cbn in *; try reflexivity; try assumption. apply andb_true_iff in H. destruct H. now apply IH. Qed.

(* Rust: any number of digits >= 1 (the text says 1..9, the code accepts more and drops them) *)
Theorem rs_fraction_trunc ds rest : (1 <= length ds)%nat -> forallb is_digit ds = true -> is_digit (cur rest) = false ->
  rs_fraction (ds ++ rest) = Some (frac_us ds, rest).
Proof.
  intros Hl Hd Hr. unfold rs_fraction, frac_us.
  rewrite <- (firstn_skipn 6 ds) at 1. rewrite <- app_assoc.
  destruct (Nat.le_gt_cases (length ds) 6) as [Le|Gt].
  - rewrite (skipn_all2 ds) by lia. cbn [app]. rewrite firstn_all2 by lia.
    rewrite rs_frac6_fold by (try lia; assumption). cbv beta iota.
    replace (0 + Z.of_nat (length ds) =? 0) with false by lia.
    rewrite (drop_digits_app [] rest eq_refl Hr : drop_digits rest = rest).
    unfold int_of, dec_fold. repeat f_equal; lia.
  - assert (L6 : length (firstn 6 ds) = 6%nat) by (rewrite firstn_length; lia).
    replace 6%nat with (length (firstn 6 ds)) at 1 by exact L6.
    rewrite rs_frac6_exact by (now apply forallb_firstn). rewrite L6. cbv beta iota.
    replace (0 + Z.of_nat 6 =? 0) with false by lia.
    rewrite drop_digits_app by (try assumption; now apply forallb_skipn).
    unfold int_of, dec_fold. reflexivity.
Qed.

(* a fraction separator that is not followed by a digit is an error *)
Theorem rs_fraction_needs_digit rest : is_digit (cur rest) = false -> rs_fraction rest = None.
Proof.
  intros H. unfold rs_fraction. destruct rest as [|r rest]; [reflexivity|]. cbn [cur] in H. cbn [rs_frac6]. rewrite H. reflexivity.
Qed.

(* ---- offsets: Z, +-hh, +-hhmm, +-hh:mm  ->  seconds (finite reflection over 00..23 x 00..59 x sign x style) *)
Definition off_text (style neg hh mm : Z) : list Z :=
  (if neg =? 0 then 43 else 45) ::
  (if style =? 0 then render2 hh ++ [58] ++ render2 mm else if style =? 1 then render2 hh ++ render2 mm else render2 hh).
Definition off_val (style neg hh mm : Z) : Z :=
  (if neg =? 0 then 1 else -1) * ((hh * 60 + (if style =? 2 then 0 else mm)) * 60).

Definition off_ok (style neg : Z) (hh mm : Z) : bool :=
  let t := off_text style neg hh mm in
  let v := off_val style neg hh mm in
  (match py_tz_offset t with Ok o => o =? v | Raise _ => false end) &&
  (match rs_offset t with Some (Some o, []) => o =? v | _ => false end).
Definition off_all_ok : bool :=
  forallb (fun style => forallb (fun neg => forall_range2 (off_ok style neg) 0 23 0 59) [0; 1]) [0; 1; 2].
Lemma off_all : off_all_ok = true. Proof. vm_compute. reflexivity. Qed.

Theorem offset_value style neg hh mm : 0 <= style <= 2 -> 0 <= neg <= 1 -> 0 <= hh <= 23 -> 0 <= mm <= 59 ->
  py_tz_offset (off_text style neg hh mm) = Ok (off_val style neg hh mm) /\
  rs_offset (off_text style neg hh mm) = Some (Some (off_val style neg hh mm), []).
Proof.
  intros Hs Hn Hh Hm. pose proof off_all as A. unfold off_all_ok in A.
  rewrite forallb_forall in A. assert (Is : In style [0; 1; 2]) by (cbn; lia). specialize (A _ Is).
  rewrite forallb_forall in A. assert (In_ : In neg [0; 1]) by (cbn; lia). specialize (A _ In_).
  pose proof (forall_range2_spec _ _ _ _ _ A hh mm Hh Hm) as E. unfold off_ok in E.
  apply andb_true_iff in E. destruct E as [E1 E2].
  destruct (py_tz_offset (off_text style neg hh mm)) as [o|]; [|discriminate].
  destruct (rs_offset (off_text style neg hh mm)) as [[[o'|] [|]]|]; try discriminate.
  split; repeat f_equal; lia.
Qed.

Theorem offset_Z : py_tz_offset [90] = Ok 0 /\ rs_offset [90] = Some (Some 0, []).
Proof. split; reflexivity. Qed.
