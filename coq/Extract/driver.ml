(* line protocol: "<fn> <int> <int> ..." -> "<int> <int> ..." ; integers in decimal, any size *)
open Model

let rec pos_of_int n = if n = 1 then XH else if n land 1 = 0 then XO (pos_of_int (n lsr 1)) else XI (pos_of_int (n lsr 1))
let z_of_small n = if n = 0 then Z0 else if n > 0 then Zpos (pos_of_int n) else Zneg (pos_of_int (-n))
let ten = z_of_small 10

let z_of_string s =
  let neg = String.length s > 0 && s.[0] = '-' in
  let start = if neg || (String.length s > 0 && s.[0] = '+') then 1 else 0 in
  if String.length s - start <= 17 then z_of_small (int_of_string s) else begin
    let acc = ref Z0 in
    for i = start to String.length s - 1 do
      acc := Z.add (Z.mul !acc ten) (z_of_small (Char.code s.[i] - 48))
    done;
    if neg then Z.opp !acc else !acc
  end

let rec int_of_pos = function XH -> 1 | XO p -> 2 * int_of_pos p | XI p -> 2 * int_of_pos p + 1
let rec pos_bits = function XH -> 1 | XO p -> 1 + pos_bits p | XI p -> 1 + pos_bits p

let rec string_of_z z =
  match z with
  | Z0 -> "0"
  | Zneg p -> "-" ^ string_of_z (Zpos p)
  | Zpos p ->
    if pos_bits p <= 61 then string_of_int (int_of_pos p)
    else begin
      let (q, r) = Z.div_eucl z (z_of_small 1000000000) in
      let rs = string_of_z r in
      string_of_z q ^ String.make (9 - String.length rs) '0' ^ rs
    end

let () =
  let buf = Buffer.create 65536 in
  (try
    while true do
      let line = input_line stdin in
      let toks = List.filter (fun s -> s <> "") (String.split_on_char ' ' line) in
      (match toks with
       | [] -> Buffer.add_string buf "\n"
       | f :: args ->
         let res = dispatch (z_of_string f) (List.map z_of_string args) in
         Buffer.add_string buf (String.concat " " (List.map string_of_z res));
         Buffer.add_char buf '\n');
      if Buffer.length buf > 60000 then (print_string (Buffer.contents buf); Buffer.clear buf)
    done
  with End_of_file -> ());
  print_string (Buffer.contents buf)
