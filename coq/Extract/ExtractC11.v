(* Extraction of the executable models: ExtrOcamlBasic only; Z/positive stay Coq's datatypes. *)
From Coq Require Import Extraction ExtrOcamlBasic ZArith.
From PV Require Import Model.DispatchC11.
Extraction Language OCaml.
Extraction "Extract/C11/model.ml" DispatchC11.dispatch Z.add Z.mul Z.opp Z.div_eucl Z.eqb Z.ltb.
