(* Extraction of the executable models: ExtrOcamlBasic only; Z/positive stay Coq's datatypes. *)
From Coq Require Import Extraction ExtrOcamlBasic ZArith.
From PV Require Import Model.DispatchC17.
Extraction Language OCaml.
Extraction "Extract/C17/model.ml" DispatchC17.dispatch Z.add Z.mul Z.opp Z.div_eucl Z.eqb Z.ltb.
